package verifsim

import (
	"archive/tar"
	"bytes"
	"fmt"
	"io"
	"math/big"
	"strings"
	"testing"

	"github.com/idena-network/idena-go/blockchain/types"
	"github.com/idena-network/idena-go/common"
	"github.com/idena-network/idena-go/core/state"
	"github.com/idena-network/idena-go/verifutil"
	dbm "github.com/tendermint/tm-db"
)

// C11: sync artifacts (identity diffs, snapshots) reproduce the canonical state.

// ---------------------------------------------------------------------------------- (a) identity diffs

// replayDiffs replays what `server` stores and serves (GetIdentityDiff, as provideBlocks does)
// on a follower identity tree with fast.go's own sequence.
func replayDiffs(w *World, rep *verifutil.Report, server *Replica, label string) {
	f, err := tmpReplica(w, w.God, dbm.NewMemDB(), "fastSyncFollower")
	if err != nil {
		rep.Note("follower boot failed: %v", err)
		return
	}
	idb, err := f.AppState.IdentityState.CreatePreliminaryCopy(f.Head().Height())
	if err != nil {
		rep.Note("CreatePreliminaryCopy failed: %v", err)
		return
	}
	for h := f.Head().Height() + 1; h <= server.Head().Height(); h++ {
		hd := server.Chain.GetBlockHeaderByHeight(h)
		if hd == nil {
			rep.Violation("served-chain-has-hole:"+label, fmt.Sprintf("server %s has no canonical header at height %d (head %d)", label, h, server.Head().Height()), nil)
			return
		}
		diff := server.Chain.GetIdentityDiff(h)
		rep.Eval(1)
		rep.Count("diffs_replayed", 1)
		idb.AddDiff(h, diff)
		if idb.Root() != hd.IdentityRoot() {
			sig := "diff-replay-root-mismatch:" + label
			if label == "reorged-server" {
				sig = "stale-identity-diff-after-reorg"
			}
			rep.Violation(sig, fmt.Sprintf("replaying the identity diff %s serves for height %d (%d entries) gives identity root %x, the canonical header says %x", label, h, lenDiff(diff), idb.Root().Bytes()[:8], hd.IdentityRoot().Bytes()[:8]), nil)
			return
		}
		if !diff.Empty() {
			idb.CommitTree(int64(h))
			rep.Count("diffs_nonempty", 1)
			b, _ := diff.ToBytes()
			rep.Distinct("diff", hash32(b))
		}
	}
	rep.Count("diff_replays_completed:"+label, 1)
}

func lenDiff(d *state.IdentityStateDiff) int {
	if d == nil {
		return 0
	}
	return len(d.Values)
}

// ---------------------------------------------------------------------------------- (b)+(c) snapshots

type treeKV struct{ k, v []byte }

func treeContents(s *state.StateDB) []treeKV {
	var l []treeKV
	s.VerifIterateAll(func(k, v []byte) bool {
		l = append(l, treeKV{append([]byte{}, k...), append([]byte{}, v...)})
		return false
	})
	return l
}

func sameContents(a, b []treeKV) string {
	if len(a) != len(b) {
		return fmt.Sprintf("%d keys vs %d keys", len(a), len(b))
	}
	for i := range a {
		if !bytes.Equal(a[i].k, b[i].k) {
			return fmt.Sprintf("key %d differs: %x vs %x", i, trunc(a[i].k, 12), trunc(b[i].k, 12))
		}
		if !bytes.Equal(a[i].v, b[i].v) {
			return fmt.Sprintf("value of key %x differs (%d vs %d bytes)", trunc(a[i].k, 12), len(a[i].v), len(b[i].v))
		}
	}
	return ""
}

// importSnapshot imports archive into a fresh database. It returns the error, a panic (if
// any), the imported contents (on success) and the number of keys left under the target
// prefix (must be 0 after a refused import).
func importSnapshot(height uint64, root common.Hash, archive []byte) (err error, pnc interface{}, contents []treeKV, leftover int) {
	db := dbm.NewMemDB()
	sdb, e := state.NewLazy(db)
	if e != nil {
		return e, nil, nil, 0
	}
	pnc, _ = verifutil.Catch(func() { err = sdb.RecoverSnapshot2(height, root, bytes.NewReader(archive)) })
	pdb := dbm.NewPrefixDB(db, state.StateDbKeys.BuildDbPrefix(height))
	it, _ := pdb.Iterator(nil, nil)
	for ; it.Valid(); it.Next() {
		leftover++
	}
	it.Close()
	if pnc == nil && err == nil {
		sdb.CommitSnapshot(height, nil)
		if sdb.Root() != root {
			err = fmt.Errorf("verif: import succeeded but the loaded root %x is not the advertised %x", sdb.Root().Bytes()[:6], root.Bytes()[:6])
		}
		contents = treeContents(sdb)
		// every key must also be FOUND by a lookup (the search path goes through the inner node keys,
		// which the root hash does not cover)
		for _, kv := range contents {
			if got := sdb.VerifTreeGet(kv.k); !bytes.Equal(got, kv.v) {
				err = fmt.Errorf("verif-lookup: import succeeded with the advertised root, but looking key %x up returns %d bytes instead of the stored %d bytes", trunc(kv.k, 12), len(got), len(kv.v))
				break
			}
		}
	}
	return
}

type tarEntry struct {
	hdr  *tar.Header
	data []byte
}

func splitTar(b []byte) []tarEntry {
	var out []tarEntry
	tr := tar.NewReader(bytes.NewReader(b))
	for {
		h, err := tr.Next()
		if err != nil {
			break
		}
		d, _ := io.ReadAll(tr)
		out = append(out, tarEntry{h, d})
	}
	return out
}

func joinTar(es []tarEntry) []byte {
	var buf bytes.Buffer
	tw := tar.NewWriter(&buf)
	for _, e := range es {
		h := *e.hdr
		h.Size = int64(len(e.data))
		tw.WriteHeader(&h)
		tw.Write(e.data)
	}
	tw.Close()
	return buf.Bytes()
}

type snapCase struct {
	name     string
	height   uint64
	root     common.Hash
	archive  []byte
	contents []treeKV
}

// checkCorruption imports a corrupted archive and applies the oracle.
func checkCorruption(rep *verifutil.Report, sc *snapCase, class, region string, corrupted []byte, detail string) {
	if bytes.Equal(corrupted, sc.archive) {
		return
	}
	rep.Eval(1)
	rep.Count("corruption:"+class, 1)
	rep.Distinct(sc.name, class, region, hash32(corrupted))
	err, pnc, contents, leftover := importSnapshot(sc.height, sc.root, corrupted)
	switch {
	case pnc != nil:
		rep.Count("outcome:panic", 1)
		rep.Violation("snapshot-import-panics:"+class, fmt.Sprintf("importing snapshot %s with corruption %s (%s, %s) panics: %v", sc.name, class, region, detail, pnc), map[string]interface{}{"snapshot": sc.name, "class": class, "detail": detail})
	case err != nil && strings.HasPrefix(err.Error(), "verif-lookup:"):
		rep.Count("outcome:accepted-but-lookups-wrong", 1)
		rep.Violation("corrupted-snapshot-accepted-with-wrong-lookups:"+class, fmt.Sprintf("snapshot %s with corruption %s (%s): %v", sc.name, class, detail, err), nil)
	case err != nil:
		rep.Count("outcome:refused", 1)
		if leftover != 0 {
			rep.Violation("refused-import-left-partial-state:"+class, fmt.Sprintf("importing snapshot %s with corruption %s (%s) was refused (%v) but left %d keys in the target db", sc.name, class, detail, err, leftover), nil)
		}
	default:
		rep.Count("outcome:accepted", 1)
		if d := sameContents(sc.contents, contents); d != "" {
			rep.Violation("corrupted-snapshot-accepted-with-other-contents:"+class, fmt.Sprintf("snapshot %s with corruption %s (%s) was accepted but the contents differ: %s", sc.name, class, detail, d), nil)
		}
	}
}

func corruptArchive(rep *verifutil.Report, r *verifutil.Rng, sc *snapCase, others []*snapCase, nFlips int) {
	a := sc.archive
	// single-byte / single-bit flips, stratified over the archive (tar headers every entry start,
	// protobuf framing, keys, values, version/height fields are all hit by offset strata)
	for i := 0; i < nFlips; i++ {
		stratum := i % 16
		lo, hi := len(a)*stratum/16, len(a)*(stratum+1)/16
		pos := lo + r.Intn(maxInt(1, hi-lo))
		c := append([]byte{}, a...)
		region := "data"
		if pos%512 < 160 && (pos < 512 || r.Intn(4) == 0) {
			region = "maybe-tar-header"
		}
		var detail string
		if i%2 == 0 {
			bit := byte(1 << uint(r.Intn(8)))
			c[pos] ^= bit
			detail = fmt.Sprintf("bit %#x at offset %d of %d", bit, pos, len(a))
		} else {
			nb := byte(r.Intn(256))
			if nb == c[pos] {
				nb++
			}
			c[pos] = nb
			detail = fmt.Sprintf("byte at offset %d of %d set to %#x", pos, len(a), nb)
		}
		checkCorruption(rep, sc, "byte-flip", region, c, detail)
	}
	// flips aimed at the first tar header
	for i := 0; i < nFlips/8+2; i++ {
		pos := r.Intn(minInt(512, len(a)))
		c := append([]byte{}, a...)
		c[pos] ^= 1 << uint(r.Intn(8))
		checkCorruption(rep, sc, "byte-flip", "tar-header", c, fmt.Sprintf("tar header offset %d", pos))
	}
	// truncation at 512-byte boundaries (quick: a sample) and at random offsets
	step := 512
	if !verifutil.Thorough() && len(a)/512 > 40 {
		step = 512 * (len(a) / 512 / 40)
	}
	for off := 0; off < len(a); off += step {
		checkCorruption(rep, sc, "truncate-512", "boundary", a[:off], fmt.Sprintf("truncated to %d of %d", off, len(a)))
	}
	for i := 0; i < nFlips/10+3; i++ {
		off := r.Intn(len(a))
		checkCorruption(rep, sc, "truncate-random", "offset", a[:off], fmt.Sprintf("truncated to %d of %d", off, len(a)))
	}
	// chunk level
	es := splitTar(a)
	if len(es) >= 1 {
		if len(es) >= 2 {
			i := r.Intn(len(es))
			d := append(append([]tarEntry{}, es[:i]...), es[i+1:]...)
			checkCorruption(rep, sc, "chunk-drop", "chunk", joinTar(d), fmt.Sprintf("chunk %d of %d dropped", i, len(es)))
			j := (i + 1) % len(es)
			sw := append([]tarEntry{}, es...)
			sw[i], sw[j] = sw[j], sw[i]
			checkCorruption(rep, sc, "chunk-reorder", "chunk", joinTar(sw), fmt.Sprintf("chunks %d and %d swapped", i, j))
			rep.Count("multi_chunk_archives_corrupted", 1)
		}
		i := r.Intn(len(es))
		du := append(append([]tarEntry{}, es[:i+1]...), es[i:]...)
		checkCorruption(rep, sc, "chunk-duplicate", "chunk", joinTar(du), fmt.Sprintf("chunk %d duplicated", i))
		for _, o := range others {
			oes := splitTar(o.archive)
			if len(oes) == 0 {
				continue
			}
			sw := append([]tarEntry{}, es...)
			sw[i] = oes[r.Intn(len(oes))]
			checkCorruption(rep, sc, "chunk-from-other-archive", "chunk", joinTar(sw), fmt.Sprintf("chunk %d replaced by a chunk of %s", i, o.name))
			break
		}
		checkCorruption(rep, sc, "chunk-drop", "chunk", joinTar(nil), "all chunks dropped (empty archive)")
	}
}

// exportAt writes a snapshot of the replica's state tree at a retained height.
func exportAt(r *Replica, height uint64, name string) (*snapCase, error) {
	var buf bytes.Buffer
	root, err := r.AppState.State.WriteSnapshot2(height, &buf)
	if err != nil {
		return nil, err
	}
	ro, err := r.AppState.Readonly(height)
	if err != nil {
		return nil, err
	}
	return &snapCase{name: name, height: height, root: root, archive: buf.Bytes(), contents: treeContents(ro.State)}, nil
}

// syntheticState builds a large state (several archive chunks): accounts, identities,
// contract stores with empty values, contract code.
func syntheticState(r *verifutil.Rng, n int) (*snapCase, error) {
	db := dbm.NewMemDB()
	s, err := state.NewLazy(db)
	if err != nil {
		return nil, err
	}
	if err := s.Load(0); err != nil {
		return nil, err
	}
	for i := 0; i < n; i++ {
		var a common.Address
		copy(a[:], r.Bytes(20))
		switch i % 4 {
		case 0:
			s.SetBalance(a, new(big.Int).SetBytes(r.Bytes(r.Range(1, 12))))
			s.SetNonce(a, uint32(r.Intn(100)))
		case 1:
			s.SetState(a, state.IdentityState(r.Range(1, 8)))
			s.AddStake(a, big.NewInt(int64(r.Intn(1000000))))
			s.SetPubKey(a, r.Bytes(65))
		case 2:
			v := r.Bytes(r.Intn(40))
			if i%8 == 2 {
				v = []byte{} // empty values must survive
			}
			s.SetContractValue(a, r.Bytes(r.Range(1, 8)), v)
		case 3:
			s.SetContractValue(a, []byte("k"), r.Bytes(3))
			s.SetBalance(a, big.NewInt(int64(i)))
		}
	}
	s.SetGodAddress(common.Address{7})
	_, _, _, err = s.Commit(true)
	if err != nil {
		return nil, err
	}
	h := uint64(s.Version())
	var buf bytes.Buffer
	root, err := s.WriteSnapshot2(h, &buf)
	if err != nil {
		return nil, err
	}
	return &snapCase{name: fmt.Sprintf("synthetic-%d", n), height: h, root: root, archive: buf.Bytes(), contents: treeContents(s)}, nil
}

func TestVerifC11(t *testing.T) {
	if !verifutil.Enabled() {
		t.Skip("verif harness")
	}
	rep := verifutil.NewReport()
	defer rep.Write()
	nScen := verifutil.Scale(1, 4)
	steps := verifutil.Scale(200, 340)
	nFlips := verifutil.Scale(96, 600)
	r := verifutil.Stream(11)
	var cases []*snapCase
	for sc := 0; sc < nScen; sc++ {
		seed := scenSeed(sc)
		o := optsFor(sc, seed)
		o.NIdent = 12 + sc%3*6
		w := NewWorld(o)
		// a server that goes through reorganisations (detours onto other blocks and back)
		reorged := w.NewReplica(w.God, dbm.NewMemDB())
		reorged.Name, reorged.Observer = "reorged-server", true
		if !startScenario(w, rep, false) {
			w.Cleanup()
			continue
		}
		s := NewScenario(w, verifutil.NewRng(seed, 11))
		s.Hostile, s.MaxTxs = 10, 6
		for i := 0; i < steps; i++ {
			rep.Progress("C11 scenario %d seed %d step %d", sc, seed, i)
			if i%3 == 0 {
				for _, g := range w.Burst(s.R) {
					s.SubmitGen(g)
				}
			}
			res := s.Step()
			if len(res.Errs) > 0 {
				rep.Note("scenario %d stopped at step %d: block refused (%v)", sc, i, res.Errs)
				break
			}
			b := res.Block
			// detour: the server replaces the last block by another one (an empty block: empty
			// identity diff), then comes back to the canonical block
			if d := reorged.Chain.GetIdentityDiff(b.Height()); (!d.Empty() || s.R.Intn(10) == 0) && reorged.Head().Hash() == b.Hash() {
				reorged.enter()
				if _, err := reorged.Chain.ResetTo(b.Height() - 1); err == nil {
					alt := reorged.Chain.GenerateEmptyBlock()
					if err := reorged.Chain.AddBlock(alt, nil, reorged.Stats); err == nil {
						rep.Count("server_reorgs", 1)
						// while on the other branch, what it serves must match ITS chain too
						if hd := reorged.Chain.GetBlockHeaderByHeight(alt.Height()); hd != nil {
							dd := reorged.Chain.GetIdentityDiff(alt.Height())
							// replay only this height on top of the previous identity state
							if cs, err := reorged.AppState.IdentityState.ForCheck(alt.Height() - 1); err == nil {
								cs.AddDiff(alt.Height(), dd)
								rep.Eval(1)
								if cs.Root() != hd.IdentityRoot() {
									rep.Violation("stale-identity-diff-after-reorg", fmt.Sprintf("after a reorg onto another block at height %d the server serves a diff (%d entries) that does not lead to that block's identity root", alt.Height(), lenDiff(dd)), nil)
								}
							}
						}
						if _, err := reorged.Chain.ResetTo(b.Height() - 1); err == nil {
							if err := reorged.AddBlock(b); err != nil {
								rep.Note("reorged server refused canonical block on the way back: %v", err)
							}
						}
					}
				}
			}
			// snapshots of sampled chain states
			if i%45 == 44 && len(cases) < verifutil.Scale(3, 10) {
				h := b.Height() - uint64(s.R.Intn(3))
				if c, err := exportAt(w.Replicas[1], h, fmt.Sprintf("chain-%d-h%d", sc, h)); err == nil {
					cases = append(cases, c)
				} else {
					rep.Note("export at retained height %d failed: %v", h, err)
				}
			}
		}
		replayDiffs(w, rep, w.Replicas[1], "straight-server")
		replayDiffs(w, rep, reorged, "reorged-server")
		for _, back := range []int{1, 7, 30, 60} {
			fastSyncEndToEnd(w, rep, w.Replicas[1], "straight-server", back)
			fastSyncEndToEnd(w, rep, reorged, "reorged-server", back)
		}
		flushCounters(rep, w, s)
		w.Cleanup()
	}
	// synthetic large states: several chunks
	for _, n := range []int{verifutil.Scale(5600, 5600), verifutil.Scale(300, 11000)} {
		if c, err := syntheticState(r, n); err == nil {
			cases = append(cases, c)
		} else {
			rep.Note("synthetic state failed: %v", err)
		}
	}
	for i, c := range cases {
		rep.Progress("C11 snapshot %s (%d bytes)", c.name, len(c.archive))
		// (b) export -> import reproduces root and contents
		err, pnc, contents, _ := importSnapshot(c.height, c.root, c.archive)
		rep.Eval(1)
		rep.Count("snapshot_roundtrips", 1)
		nchunks := len(splitTar(c.archive))
		rep.Max("max_chunks_in_one_archive", nchunks)
		rep.Distinct("snapshot", c.name, hash32(c.archive))
		if pnc != nil || err != nil {
			rep.Violation("snapshot-roundtrip-fails", fmt.Sprintf("importing the untouched export %s fails: err=%v panic=%v", c.name, err, pnc), nil)
			continue
		}
		if d := sameContents(c.contents, contents); d != "" {
			rep.Violation("snapshot-roundtrip-differs", fmt.Sprintf("export/import of %s: %s", c.name, d), nil)
			continue
		}
		if i < 2 {
			rep.Sample(map[string]interface{}{"snapshot": c.name, "bytes": len(c.archive), "chunks": nchunks, "keys": len(c.contents), "root": c.root.Hex()})
		}
		// (c) corruption
		var others []*snapCase
		if len(cases) > 1 {
			others = []*snapCase{cases[(i+1)%len(cases)]}
		}
		nf := nFlips
		if len(c.archive) > 400000 {
			nf = nFlips / 3 // large archives cost more per import
		}
		corruptArchive(rep, r, c, others, nf)
	}
}

// ---------------------------------------------------------------------------------- (d) end-to-end fast sync

// fastSyncEndToEnd: a node fast-synced from what `server` serves must hold exactly the state
// of the canonical chain at the snapshot height and must keep accepting the canonical blocks.
func fastSyncEndToEnd(w *World, rep *verifutil.Report, server *Replica, label string, back int) {
	head := server.Head().Height()
	snapH := head - uint64(back)
	run, err := FastSyncHeaders(w, server, dbm.NewMemDB(), snapH)
	rep.Eval(1)
	rep.Count("fast_syncs", 1)
	if err != nil {
		rep.Violation("fast-sync-refuses-served-artifacts:"+label+":"+ErrClass(err), fmt.Sprintf("fast sync from %s to height %d (head %d) failed in the header/diff phase: %v", label, snapH, head, err), nil)
		return
	}
	if err := run.Finish(); err != nil {
		rep.Violation("fast-sync-refuses-served-artifacts:"+label+":"+ErrClass(err), fmt.Sprintf("fast sync from %s to height %d failed in the snapshot/switch phase: %v", label, snapH, err), nil)
		return
	}
	S := run.S
	if S.Head().Height() != snapH || S.Head().Root() != S.AppState.State.Root() || S.Head().IdentityRoot() != S.AppState.IdentityState.Root() {
		rep.Violation("fast-synced-state-not-canonical:"+label, fmt.Sprintf("after fast sync to %d: head %d roots %x/%x state roots %x/%x", snapH, S.Head().Height(), S.Head().Root().Bytes()[:6], S.Head().IdentityRoot().Bytes()[:6],
			S.AppState.State.Root().Bytes()[:6], S.AppState.IdentityState.Root().Bytes()[:6]), nil)
		return
	}
	// compare with the canonical state at that height and continue with the canonical blocks
	if ro, err := server.AppState.Readonly(snapH); err == nil {
		if d := sameContents(treeContents(ro.State), treeContents(S.AppState.State)); d != "" {
			rep.Violation("fast-synced-state-not-canonical:"+label, fmt.Sprintf("state contents after fast sync to %d differ from the canonical state: %s", snapH, d), nil)
			return
		}
	}
	// validator view of the fast-synced node = rebuilt view
	var last *types.Block
	for _, b := range w.Blocks {
		if b.Height() <= snapH {
			continue
		}
		if err := S.Chain.AddBlock(b, nil, S.Stats); err != nil {
			rep.Violation("fast-synced-node-refuses-canonical-block:"+label+":"+ErrClass(err), fmt.Sprintf("node fast-synced to %d refuses canonical block %d (%s): %v", snapH, b.Height(), BlockKind(b), err), DescribeBlock(b))
			return
		}
		last = b
		CheckValidators(w, S, rep, b)
	}
	if last != nil {
		if a, c := DigestState(S.AppState), DigestState(server.AppState); a != c && server.Head().Hash() == S.Head().Hash() {
			rep.Violation("fast-synced-node-diverges:"+label, fmt.Sprintf("after the same blocks the fast-synced node has %s, the server %s", a, c), nil)
		}
	}
	rep.Count("fast_syncs_completed:"+label, 1)
}
