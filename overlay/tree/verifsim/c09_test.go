package verifsim

import (
	"fmt"
	"strings"
	"testing"
	"time"

	"github.com/idena-network/idena-go/blockchain/types"
	"github.com/idena-network/idena-go/blockchain/validation"
	"github.com/idena-network/idena-go/consensus"
	"github.com/idena-network/idena-go/core/state"
	"github.com/idena-network/idena-go/verifutil"
	dbm "github.com/tendermint/tm-db"
)

// C09: a crash at any storage write leaves a node that restarts into a consistent chain.

func memFromDump(d map[string][]byte) dbm.DB {
	n := dbm.NewMemDB()
	for k, v := range d {
		n.Set([]byte(k), v)
	}
	return n
}

// writePhase names the logical phase a counted write belongs to.
func writePhase(logEntry string) string { return WriteClass(logEntry) }

type c09ref struct {
	head   string
	digest StateDigest
}

// recoverAndCheck restarts a node on the surviving database and applies the oracles.
func recoverAndCheck(w *World, rep *verifutil.Report, scenario, phase string, k int, surviving dbm.DB, preHeight uint64, feed []*types.Block, ref c09ref) {
	var r2 *Replica
	var err error
	if p, stack := verifutil.Catch(func() { r2, err = tmpReplica(w, w.God, surviving, "restarted") }); p != nil {
		rep.Violation("restart-panics:"+scenario+":"+phase, fmt.Sprintf("%s crashed at write %d (%s): the start-up sequence panics: %v", scenario, k, phase, p), map[string]interface{}{"stack": verifutil.Trunc(stack, 3000)})
		return
	}
	if err != nil {
		rep.Violation("restart-fails:"+scenario+":"+phase+":"+ErrClass(err), fmt.Sprintf("%s crashed at write %d (%s): the start-up sequence fails: %v", scenario, k, phase, err), nil)
		return
	}
	h := r2.Head().Height()
	if r2.Head().Root() != r2.AppState.State.Root() || r2.Head().IdentityRoot() != r2.AppState.IdentityState.Root() {
		rep.Violation("head-state-mismatch-after-restart:"+scenario+":"+phase, fmt.Sprintf("%s crashed at write %d (%s): after restart head %d has roots %x/%x but the loaded state has %x/%x", scenario, k, phase, h,
			r2.Head().Root().Bytes()[:6], r2.Head().IdentityRoot().Bytes()[:6], r2.AppState.State.Root().Bytes()[:6], r2.AppState.IdentityState.Root().Bytes()[:6]), nil)
		return
	}
	maxH := preHeight
	for _, b := range feed {
		if b.Height() > maxH {
			maxH = b.Height()
		}
	}
	if h > maxH || h+uint64(state.MaxSavedStatesCount)+1 < preHeight {
		rep.Violation("head-out-of-range-after-restart:"+scenario+":"+phase, fmt.Sprintf("%s crashed at write %d (%s) at height %d: restarted head is %d", scenario, k, phase, preHeight, h), nil)
		return
	}
	if h < preHeight {
		rep.Count("restarts_below_interrupted_height", 1)
	}
	// the restarted node must accept the same next blocks and reach the same roots
	for _, b := range feed {
		if b.Height() <= r2.Head().Height() {
			if hd := r2.Chain.GetBlockHeaderByHeight(b.Height()); hd == nil || hd.Hash() != b.Hash() {
				// below the head the canonical index may have a hole (diagnostic only, see DESIGN §C09)
				rep.Count("diagnostic:canonical-hole-below-head", 1)
			}
			continue
		}
		var e error
		if p, stack := verifutil.Catch(func() { e = r2.Chain.AddBlock(b, nil, r2.Stats) }); p != nil {
			rep.Violation("recovered-node-panics-on-next-block:"+scenario+":"+phase, fmt.Sprintf("%s crashed at write %d (%s): after restart at %d, adding block %d panics: %v", scenario, k, phase, h, b.Height(), p), map[string]interface{}{"stack": verifutil.Trunc(stack, 3000)})
			return
		}
		if e != nil {
			rep.Violation("recovered-node-refuses-next-block:"+scenario+":"+phase+":"+ErrClass(e), fmt.Sprintf("%s crashed at write %d (%s): after restart at %d, block %d (%s) is refused: %v", scenario, k, phase, h, b.Height(), BlockKind(b), e), nil)
			return
		}
	}
	d := DigestState(r2.AppState)
	if r2.Head().Hash().Hex() != ref.head || d != ref.digest {
		rep.Violation("recovered-node-diverges:"+scenario+":"+phase, fmt.Sprintf("%s crashed at write %d (%s): after recovery and the same blocks the node is at %s / %s, the never-crashed node at %s / %s", scenario, k, phase,
			r2.Head().Hash().Hex()[:14], d, ref.head[:14], ref.digest), nil)
	}
}

func crashPoints(n int, r *verifutil.Rng, all bool) []int {
	var l []int
	if all || n <= 24 {
		for k := 1; k <= n; k++ {
			l = append(l, k)
		}
		return l
	}
	seen := map[int]bool{}
	for _, k := range []int{1, 2, 3, n - 2, n - 1, n} {
		if k >= 1 && !seen[k] {
			seen[k] = true
			l = append(l, k)
		}
	}
	for len(l) < 20 {
		k := r.Range(1, n)
		if !seen[k] {
			seen[k] = true
			l = append(l, k)
		}
	}
	return l
}

type c09pre struct {
	idx  int // index in w.Blocks of the block to insert
	dump map[string][]byte
	kind string
}

func TestVerifC09(t *testing.T) {
	if !verifutil.Enabled() {
		t.Skip("verif harness")
	}
	rep := verifutil.NewReport()
	defer rep.Write()
	nScen := verifutil.Scale(1, 4)
	steps := verifutil.Scale(190, 330)
	perKind := verifutil.Scale(2, 8)
	follow := 4
	for sc := 0; sc < nScen; sc++ {
		seed := scenSeed(sc)
		o := optsFor(sc, seed)
		o.NIdent = 10 + sc%3*4
		o.ValidationInterval = 50 * time.Minute
		w := NewWorld(o)
		F := w.NewReplica(w.God, dbm.NewMemDB())
		F.Name, F.Observer = "follower", true
		if !startScenario(w, rep, false) {
			w.Cleanup()
			continue
		}
		s := NewScenario(w, verifutil.NewRng(seed, 9))
		s.Hostile, s.MaxTxs = 10, 5
		r := verifutil.NewRng(seed, 99)
		var pres []c09pre
		quota := map[string]int{}
		var forkPre []int
		for i := 0; i < steps; i++ {
			rep.Progress("C09 scenario %d seed %d step %d (history)", sc, seed, i)
			dump := DumpDB(F.DB)
			res := s.Step()
			if len(res.Errs) > 0 {
				rep.Note("scenario %d stopped at step %d: block refused (%v)", sc, i, res.Errs)
				break
			}
			b := res.Block
			kind := "plain"
			f := b.Header.Flags()
			switch {
			case f.HasFlag(types.ValidationFinished):
				kind = "validation-finished"
			case f.HasFlag(types.Snapshot) && f.HasFlag(types.IdentityUpdate):
				kind = "snapshot+identity-update"
			case f.HasFlag(types.Snapshot):
				kind = "snapshot"
			case f.HasFlag(types.IdentityUpdate):
				kind = "identity-update"
			case b.IsEmpty():
				kind = "empty"
			default:
				for _, tx := range b.Body.Transactions {
					if tx.Type == types.DeployContractTx || tx.Type == types.CallContractTx || tx.Type == types.TerminateContractTx {
						kind = "contract"
					}
				}
			}
			if b.Height() > uint64(state.MaxSavedStatesCount)+3 {
				kind += "+pruning"
			}
			if quota[kind] < perKind && (r.Intn(3) == 0 || strings.HasPrefix(kind, "validation")) {
				quota[kind]++
				pres = append(pres, c09pre{idx: len(w.Blocks) - 1, dump: dump, kind: kind})
			}
			if i%50 == 49 {
				forkPre = append(forkPre, len(w.Blocks))
			}
		}
		// ---------------- AddBlock crash experiments
		for _, p := range pres {
			if p.idx+follow >= len(w.Blocks) {
				continue
			}
			block := w.Blocks[p.idx]
			feed := w.Blocks[p.idx : p.idx+1+follow]
			scenario := "AddBlock(" + p.kind + ")"
			rep.Progress("C09 scenario %d: %s height %d", sc, scenario, block.Height())
			// never-crashed reference + write count
			cdb := NewCrashDB(memFromDump(p.dump))
			ref, err := tmpReplica(w, w.God, cdb, "reference")
			if err != nil {
				rep.Note("reference boot failed: %v", err)
				continue
			}
			pre := ref.Head().Height()
			cdb.Arm(0)
			if err := ref.Chain.AddBlock(block, nil, ref.Stats); err != nil {
				rep.Note("reference refused block %d: %v", block.Height(), err)
				continue
			}
			n := cdb.Writes
			wlog := append([]string{}, cdb.Log...)
			cdb.Disarm()
			okRef := true
			for _, b := range feed[1:] {
				if err := ref.Chain.AddBlock(b, nil, ref.Stats); err != nil {
					okRef = false
				}
			}
			if !okRef {
				continue
			}
			refv := c09ref{head: ref.Head().Hash().Hex(), digest: DigestState(ref.AppState)}
			rep.Max("max_writes_in_one_insertion", n)
			// clean restart at a block boundary changes nothing observable
			{
				before := append(ValidatorsDump(ref.AppState.ValidatorsCache, nil, nil), DigestState(ref.AppState).String(), ref.Head().Hash().Hex())
				r2, err := tmpReplica(w, w.God, CloneDB(cdb.Inner()), "clean-restart")
				rep.Eval(1)
				rep.Count("clean_restarts", 1)
				if err != nil {
					rep.Violation("clean-restart-fails", fmt.Sprintf("restart at block boundary %d failed: %v", ref.Head().Height(), err), nil)
				} else {
					after := append(ValidatorsDump(r2.AppState.ValidatorsCache, nil, nil), DigestState(r2.AppState).String(), r2.Head().Hash().Hex())
					if fmt.Sprint(before) != fmt.Sprint(after) {
						rep.Violation("clean-restart-changes-view", fmt.Sprintf("restart at block boundary %d: before %v after %v", ref.Head().Height(), before, after), nil)
					}
				}
			}
			mark1 := w.ScratchMark()
			for _, k := range crashPoints(n, r, verifutil.Thorough()) {
				w.DisposeSince(mark1) // scratch nodes of the previous crash point
				phase := writePhase(wlog[k-1])
				rep.Progress("C09 scenario %d: %s height %d crash at write %d/%d (%s)", sc, scenario, block.Height(), k, n, phase)
				cdb := NewCrashDB(memFromDump(p.dump))
				victim, err := tmpReplica(w, w.God, cdb, "victim")
				if err != nil {
					continue
				}
				cdb.Arm(k)
				crashed, other := cdb.RunToCrash(func() { victim.Chain.AddBlock(block, nil, victim.Stats) })
				if other != nil {
					rep.Note("unexpected panic (not the crash sentinel) during %s: %v", scenario, other)
					continue
				}
				if !crashed {
					continue
				}
				rep.Eval(1)
				rep.Count("crash_points", 1)
				rep.Count("phase:"+phase, 1)
				rep.Count("scenario:"+scenario, 1)
				rep.Distinct(scenario, phase, k, block.Hash().Hex())
				recoverAndCheck(w, rep, scenario, phase, k, CloneDB(cdb.Inner()), pre, feed, refv)
			}
			if rep.Get("samples_taken") < 3 {
				rep.Count("samples_taken", 1)
				var ph []string
				for _, l := range wlog {
					ph = append(ph, writePhase(l))
				}
				rep.Sample(map[string]interface{}{"scenario": scenario, "height": block.Height(), "writes": n, "write_sequence": ph})
			}
		}
		// ---------------- fork switch (ResetTo + re-apply) crash experiments
		for _, at := range forkPre {
			if at < 12 || at > len(w.Blocks) {
				continue
			}
			forkSwitchCrash(w, rep, r, sc, at)
		}
		fastSyncCrash(w, rep, r, sc)
		flushCounters(rep, w, s)
		w.Cleanup()
	}
}

// forkSwitchCrash: a node on the canonical chain up to w.Blocks[:at] is offered a valid,
// longer, fully certified fork and crashes at each write of ResetTo + ApplyFork.
func forkSwitchCrash(w *World, rep *verifutil.Report, r *verifutil.Rng, sc, at int) {
	// the node's database: replay the canonical blocks (clean)
	base, err := tmpReplica(w, w.God, dbm.NewMemDB(), "base")
	if err != nil {
		return
	}
	for _, b := range w.Blocks[:at] {
		if err := base.AddBlock(b); err != nil {
			rep.Note("fork-switch base refused canonical block: %v", err)
			return
		}
	}
	head := base.Head().Height()
	d := r.Range(1, 5)
	m := d + r.Range(1, 3)
	// the fork builder
	B, err := tmpReplica(w, w.God, CloneDB(base.DB), "forkBuilder")
	if err != nil {
		return
	}
	if _, err := B.Chain.ResetTo(head - uint64(d)); err != nil {
		return
	}
	var owner *Actor
	for _, a := range append([]*Actor{w.God}, w.Nodes...) {
		vc := B.AppState.ValidatorsCache
		if vc.IsOnlineIdentity(a.Addr) || B.AppState.State.GodAddress() == a.Addr && vc.OnlineSize() == 0 {
			owner = a
			break
		}
	}
	if owner == nil {
		return
	}
	if owner != B.Owner {
		if B, err = tmpReplica(w, owner, B.DB, "forkBuilder"); err != nil {
			return
		}
	}
	saved := w.Now()
	defer setClock(saved)
	w.ViewOverride = B
	defer func() { w.ViewOverride = nil }()
	var fork []types.BlockBundle
	for j := 0; j < m; j++ {
		prev := B.Head()
		for k := 0; k < r.Intn(3); k++ {
			if g := w.RandomTx(r, 0); g != nil && g.Tx != nil {
				B.TxPool.AddExternalTxs(validation.InboundTx, g.Tx)
			}
		}
		if t := time.Unix(prev.Time(), 0).Add(11 * time.Second); w.Now().Before(t) {
			setClock(t)
		}
		b := B.Chain.ProposeBlock(nil).Block
		cert, ok := shapeCert(w, r, B, prev, b, certValid)
		if !ok {
			return
		}
		fork = append(fork, types.BlockBundle{Block: b, Cert: cert})
		if err := B.AddBlock(b); err != nil {
			return
		}
	}
	// reference: never crashes
	ref, err := tmpReplica(w, w.God, CloneDB(base.DB), "reference")
	if err != nil {
		return
	}
	cdbRef := NewCrashDB(ref.DB)
	ref, _ = tmpReplica(w, w.God, cdbRef, "reference")
	res := consensus.NewForkResolver(nil, nil, ref.Chain, ref.Stats)
	if err := res.VerifProcessBlocks(fork); err != nil || !res.HasLoadedFork() {
		rep.Note("fork-switch: valid fork refused by reference: %v", err)
		return
	}
	cdbRef.Arm(0)
	if _, err := res.ApplyFork(); err != nil {
		rep.Note("fork-switch: ApplyFork failed on reference: %v", err)
		return
	}
	n := cdbRef.Writes
	wlog := append([]string{}, cdbRef.Log...)
	refv := c09ref{head: ref.Head().Hash().Hex(), digest: DigestState(ref.AppState)}
	scenario := "ForkSwitch(ResetTo+ApplyFork)"
	var feed []*types.Block
	for _, fb := range fork {
		feed = append(feed, fb.Block)
	}
	mark2 := w.ScratchMark()
	for _, k := range crashPoints(n, r, verifutil.Thorough()) {
		w.DisposeSince(mark2) // scratch nodes of the previous crash point
		phase := writePhase(wlog[k-1])
		rep.Progress("C09 scenario %d: fork switch at %d crash at write %d/%d (%s)", sc, head, k, n, phase)
		cdb := NewCrashDB(CloneDB(base.DB))
		victim, err := tmpReplica(w, w.God, cdb, "victim")
		if err != nil {
			continue
		}
		vr := consensus.NewForkResolver(nil, nil, victim.Chain, victim.Stats)
		if err := vr.VerifProcessBlocks(fork); err != nil {
			continue
		}
		cdb.Arm(k)
		crashed, other := cdb.RunToCrash(func() { vr.ApplyFork() })
		if other != nil || !crashed {
			continue
		}
		rep.Eval(1)
		rep.Count("crash_points", 1)
		rep.Count("phase:"+phase, 1)
		rep.Count("scenario:"+scenario, 1)
		rep.Distinct(scenario, phase, k, head)
		// restart; if the node is still on its own branch it goes through fork resolution again
		surviving := CloneDB(cdb.Inner())
		var r2 *Replica
		if p, _ := verifutil.Catch(func() { r2, err = tmpReplica(w, w.God, surviving, "restarted") }); p != nil || err != nil {
			rep.Violation("restart-fails:"+scenario+":"+phase, fmt.Sprintf("%s crashed at write %d (%s): restart fails: %v %v", scenario, k, phase, p, err), nil)
			continue
		}
		onFork := r2.Head().Height() <= head-uint64(d)
		for _, fb := range fork {
			if fb.Block.Hash() == r2.Head().Hash() {
				onFork = true
			}
		}
		if onFork {
			recoverAndCheck(w, rep, scenario, phase, k, surviving, head, feed, refv)
		} else {
			rep.Count("fork_switch_restarted_on_own_branch", 1)
			// still on its own branch: it must be able to simply go on with the next block of that branch ...
			if at < len(w.Blocks) && r2.Head().Height() == head {
				if r3, err := tmpReplica(w, w.God, CloneDB(surviving), "restarted-own-branch"); err == nil {
					var e error
					if p, _ := verifutil.Catch(func() { e = r3.Chain.AddBlock(w.Blocks[at], nil, r3.Stats) }); p != nil || e != nil {
						rep.Violation("recovered-node-refuses-next-block:"+scenario+":"+phase+":own-branch", fmt.Sprintf("%s crashed at write %d (%s): restarted on its own branch at %d, the next block of that branch is refused: %v %v", scenario, k, phase, head, p, e), nil)
						continue
					}
					rep.Count("own_branch_continuations_after_crash", 1)
				}
			}
			// ... and to go through the fork resolution again
			rr := consensus.NewForkResolver(nil, nil, r2.Chain, r2.Stats)
			if err := rr.VerifProcessBlocks(fork); err != nil || !rr.HasLoadedFork() {
				rep.Violation("recovered-node-refuses-fork:"+phase+":"+ErrClass(err), fmt.Sprintf("%s crashed at write %d (%s): restarted on its own branch at %d, the same valid fork is now refused: %v", scenario, k, phase, r2.Head().Height(), err), nil)
				continue
			}
			if _, err := rr.ApplyFork(); err != nil {
				rep.Violation("recovered-node-cannot-apply-fork:"+phase+":"+ErrClass(err), fmt.Sprintf("%s crashed at write %d (%s): ApplyFork after restart fails: %v", scenario, k, phase, err), nil)
				continue
			}
			if dd := DigestState(r2.AppState); r2.Head().Hash().Hex() != refv.head || dd != refv.digest {
				rep.Violation("recovered-node-diverges:"+scenario+":"+phase, fmt.Sprintf("%s crashed at write %d (%s): after recovery the node is at %s, the never-crashed node at %s", scenario, k, phase, dd, refv.digest), nil)
			}
		}
	}
}

// fastSyncCrash: crash at every write of the final phase of a fast sync (snapshot import,
// forced identity version, atomic switch to the preliminary head).
func fastSyncCrash(w *World, rep *verifutil.Report, r *verifutil.Rng, sc int) {
	server := w.Replicas[1]
	head := server.Head().Height()
	if head < 40 {
		return
	}
	snapH := head - uint64(r.Range(3, 30))
	scenario := "FastSyncFinish(RecoverSnapshot2+SaveForcedVersion+AtomicSwitchToPreliminary)"
	// reference + write count
	cdb := NewCrashDB(dbm.NewMemDB())
	run, err := FastSyncHeaders(w, server, cdb, snapH)
	if err != nil {
		rep.Note("fast sync header phase failed: %v", err)
		return
	}
	// AtomicSwitchToPreliminary empties the two replaced databases in a goroutine of its own: its
	// deletes are writes a crash can fall on as well (CrashDB.Background), and the run is over when
	// both old prefixes are empty
	cdb.Background = true
	idp, _ := state.IdentityStateDbKeys.LoadDbPrefix(cdb, false)
	stp, _ := state.StateDbKeys.LoadDbPrefix(cdb)
	cdb.Arm(0)
	if err := run.Finish(); err != nil {
		rep.Note("fast sync finish failed on the reference: %v", err)
		return
	}
	if !cdb.WaitEmptied(idp, stp) {
		rep.Note("fast sync finish: the replaced databases were not emptied in time")
		return
	}
	n, _ := cdb.Count()
	wlog, _ := cdb.Snapshot()
	cdb.Disarm()
	var feed []*types.Block
	for _, b := range w.Blocks {
		feed = append(feed, b)
	}
	for _, b := range feed {
		if b.Height() > run.S.Head().Height() {
			if err := run.S.Chain.AddBlock(b, nil, run.S.Stats); err != nil {
				rep.Note("fast-synced reference refused block %d: %v", b.Height(), err)
				return
			}
		}
	}
	refv := c09ref{head: run.S.Head().Hash().Hex(), digest: DigestState(run.S.AppState)}
	rep.Max("max_writes_in_fast_sync_finish", n)
	// every write up to the switch and the first deletes of the clean-up, sampled ones of the rest
	points := crashPoints(n, r, verifutil.Thorough())
	have := map[int]bool{}
	for _, k := range points {
		have[k] = true
	}
	for k := 1; k <= 8 && k <= n; k++ {
		if !have[k] {
			points = append(points, k)
		}
	}
	for _, k := range points {
		phase := writePhase(wlog[k-1])
		rep.Progress("C09 scenario %d: fast sync finish crash at write %d/%d (%s)", sc, k, n, phase)
		cdb := NewCrashDB(dbm.NewMemDB())
		run, err := FastSyncHeaders(w, server, cdb, snapH)
		if err != nil {
			continue
		}
		cdb.Background = true
		cdb.Arm(k)
		crashed, other := cdb.RunToCrash(func() {
			if run.Finish() == nil {
				cdb.WaitEmptied(idp, stp)
			}
		})
		if _, c := cdb.Count(); c {
			crashed = true
		}
		if other != nil || !crashed {
			continue
		}
		rep.Eval(1)
		rep.Count("crash_points", 1)
		rep.Count("phase:"+phase, 1)
		rep.Count("scenario:"+scenario, 1)
		rep.Distinct(scenario, phase, k, snapH)
		// the head before the switch is the node's old head (genesis here); after it, snapH
		recoverAndCheck(w, rep, scenario, phase, k, CloneDB(cdb.Inner()), 1, feed, refv)
	}
}
