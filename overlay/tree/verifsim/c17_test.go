package verifsim

import (
	"fmt"
	"os"
	"sort"
	"strings"
	"testing"
	"time"

	"github.com/idena-network/idena-go/blockchain/types"
	"github.com/idena-network/idena-go/blockchain/validation"
	"github.com/idena-network/idena-go/common"
	"github.com/idena-network/idena-go/config"
	"github.com/idena-network/idena-go/core/state"
	"github.com/idena-network/idena-go/crypto"
	"github.com/idena-network/idena-go/log"
	statsTypes "github.com/idena-network/idena-go/stats/types"
	"github.com/idena-network/idena-go/verifutil"
	dbm "github.com/tendermint/tm-db"
)

// Property C17 part (b): the epoch result computed by the REAL ValidationCeremony depends
// only on on-chain data. See /verif/DESIGN.md §C17 and /verif/vlib/specs/C17.py.

var c17Phases = []string{"lottery", "short", "long", "afterlong"}

var stateNames = map[state.IdentityState]string{state.Undefined: "Undefined", state.Invite: "Invite", state.Candidate: "Candidate", state.Verified: "Verified",
	state.Suspended: "Suspended", state.Killed: "Killed", state.Zombie: "Zombie", state.Newbie: "Newbie", state.Human: "Human"}

// c17MapOrderProbe iterates a small map next to each evaluation; the number of distinct
// orders it produced is evidence that the runtime really varied map iteration.
func c17MapOrderProbe(seen map[string]bool) {
	m := map[int]int{1: 1, 2: 2, 3: 3, 4: 4, 5: 5, 6: 6, 7: 7, 8: 8, 9: 9, 10: 10, 11: 11, 12: 12}
	s := ""
	for k := range m {
		s += fmt.Sprint(k, ",")
	}
	seen[s] = true
}

func validatedState(s state.IdentityState) bool {
	return s == state.Newbie || s == state.Verified || s == state.Human
}

type c17World struct {
	w                *World
	sim              *CeremonySim
	rep              *verifutil.Report
	variant          map[*Replica]string // replica -> variant class used in violation signatures
	restarters       []*Replica
	rsPhase          map[*Replica]string
	fresh            *Replica
	alt, rival       *Replica
	K                int
	orders           map[string]bool
	pre              map[common.Address]state.Identity
	shard            int
	worldNo          int
	altTx            *types.Transaction
	stats            *statsTypes.ValidationStats // statistics object of the proposer's first-pass evaluation
	nodeRestartPhase string                      // phase in which the proposing node Replicas[3] is restarted this epoch ("" = not)
	nodeRestarted    *Replica                    // ... done
	chainLive        bool                        // the 3-link transitive delegation chain is on chain in this epoch
	nondet           bool                        // the proposer's own re-executions of the final block disagreed
	altNote          string
}

func (c *c17World) variantOf(r *Replica, proposer *Replica) string {
	if r == proposer {
		return "proposer"
	}
	if v, ok := c.variant[r]; ok {
		if ph, ok := c.rsPhase[r]; ok && ph != "" {
			return v + "-" + ph
		}
		return v
	}
	return "node"
}

// evalOnCheck executes b once on a fresh private check state of r.
func (c *c17World) evalOnCheck(r *Replica, b *types.Block, variant, pass string) bool {
	r.enter()
	c17MapOrderProbe(c.orders)
	_, _, err := r.Chain.VerifValidateOnCheck(b)
	c.rep.Eval(1)
	c.rep.Count("epoch_evaluations", 1)
	c.rep.Count("variant_"+strings.SplitN(variant, "-", 2)[0]+"_"+pass, 1)
	if err != nil {
		sig := "epoch-result-differs:" + variant + ":" + pass + ":" + ErrClass(err)
		if c.chainLive {
			sig = "epoch-result-order-dependent:transitive-delegation-chain"
			c.nondet = true
		}
		c.rep.Violation(sig,
			fmt.Sprintf("validation-finishing block %d built by the proposer is refused by %s (%s, %s evaluation): %v", b.Height(), r.Name, variant, pass, err),
			map[string]interface{}{"block": DescribeBlock(b), "plan": c.sim.Plan.Describe(), "world": c.describe()})
		return false
	}
	return true
}

func (c *c17World) describe() map[string]interface{} {
	return map[string]interface{}{"world_seed": c.w.Opt.Seed, "shard": c.shard, "world": c.worldNo, "consensus": int(c.w.Opt.Version),
		"identities": c.w.Opt.NIdent, "god_is_identity": c.w.Opt.GodIsIdentity, "epoch_no": c.sim.EpochNo}
}

// finalBlock is called with the validation-finishing block after the proposer built it and
// before anybody else saw it.
func (c *c17World) finalBlock(b *types.Block, p *Replica) {
	w := c.w
	c.rep.Progress("C17 world %d seed %d: final block %d of epoch %d", c.worldNo, w.Opt.Seed, b.Height(), c.sim.Plan.Epoch)
	c.rep.Count("real_epochs_driven", 1)
	if p == c.nodeRestarted {
		c.rep.Count("final_block_built_by_restarted_node", 1)
	}
	// the proposer evaluated once while building (first pass); every further evaluation hits its
	// cache. Same node, same block, same prior state: every evaluation must give the same verdict.
	c.stats = p.Real().VC.VerifValidationStats()
	live := len(c.sim.Plan.Chain3) == 4
	c.chainLive = live
	n := c.K
	if live {
		n = 40
	}
	acc, refd := 0, 0
	var lastErr error
	for i := 0; i < n; i++ {
		p.enter()
		c17MapOrderProbe(c.orders)
		_, _, err := p.Chain.VerifValidateOnCheck(b)
		c.rep.Eval(1)
		c.rep.Count("epoch_evaluations", 1)
		c.rep.Count("variant_proposer_cached", 1)
		if err != nil {
			refd++
			lastErr = err
		} else {
			acc++
		}
	}
	if refd > 0 {
		cause := "no-known-cause"
		if live {
			cause = "transitive-delegation-chain"
			c.rep.Count("order_dependence_observed_with_chain3", 1)
		}
		c.nondet = true
		what := fmt.Sprintf("the proposer %s re-executed its own validation-finishing block %d (epoch %d) %d times on fresh check states of the same head: %d accepted, %d refused (%v)",
			p.Name, b.Height(), c.sim.Plan.Epoch, n, acc, refd, lastErr)
		if live {
			ch := c.sim.Plan.Chain3
			what += fmt.Sprintf("; delegation chain on chain before the lottery: %s(%s) -> %s(%s) -> %s -> %s, the first two not validated before this ceremony",
				fmtAddr(ch[0]), stateNames[c.pre[ch[0]].State], fmtAddr(ch[1]), stateNames[c.pre[ch[1]].State], fmtAddr(ch[2]), fmtAddr(ch[3]))
		}
		if acc > 0 || live {
			c.rep.Violation("epoch-result-order-dependent:"+cause, what, map[string]interface{}{"block": DescribeBlock(b), "plan": c.sim.Plan.Describe(), "world": c.describe(), "accepted": acc, "refused": refd})
		} else {
			c.rep.Violation("epoch-result-differs:proposer:cached:"+ErrClass(lastErr), what, map[string]interface{}{"block": DescribeBlock(b), "plan": c.sim.Plan.Describe(), "world": c.describe()})
		}
		return
	}
	for _, r := range w.Replicas {
		if !r.Alive || r == p || r == c.fresh {
			continue
		}
		v := c.variantOf(r, p)
		pass := "first"
		if _, _, hit := r.Real().VC.VerifEpochCache(b.Height()); hit {
			pass = "cached" // the replica validated a competing proposal for this height before
		}
		for i := 0; i < c.K; i++ {
			if !c.evalOnCheck(r, b, v, pass) {
				break
			}
			pass = "cached"
		}
	}
	// the follower that never saw a transaction outside blocks evaluates as it is ...
	for i := 0; i < c.K; i++ {
		pass := "cached"
		if i == 0 {
			pass = "first"
		}
		if !c.evalOnCheck(c.fresh, b, "blind", pass) {
			break
		}
	}
	// ... and then gives K independent first-pass evaluations by ceremony objects re-created on its surviving DB
	for i := 0; i < c.K; i++ {
		if err := c.fresh.Restart(); err != nil {
			c.rep.Violation("restart-failed:final", fmt.Sprintf("restart of a follower before the validation-finishing block failed: %v", err), nil)
			break
		}
		c.rep.Count("restart_at_final", 1)
		if !c.evalOnCheck(c.fresh, b, "fresh", "first") {
			break
		}
	}
}

func (c *c17World) snapshotPre() {
	w := c.w
	c.pre = map[common.Address]state.Identity{}
	st := w.View().AppState.State
	var addrs []common.Address
	st.IterateOverIdentities(func(a common.Address, _ state.Identity) { addrs = append(addrs, a) })
	for _, a := range addrs {
		c.pre[a] = st.GetIdentity(a)
	}
}

// competingProposal lets the observer `alt` (owned by an online node identity) build a
// DIFFERENT validation-finishing block for the coming height and lets `rival` validate it
// (not insert it), as a node does with a proposal that then loses the round.
func (c *c17World) competingProposal() {
	w, pl := c.w, c.sim.Plan
	c.altTx, c.altNote = nil, ""
	if len(pl.Chain3) == 4 {
		return // the epoch result of this epoch is known to depend on map order; a second proposal adds nothing
	}
	if c.alt == nil || !c.alt.Alive || !c.alt.CanPropose() {
		c.rep.Count("competing_proposal_skipped_no_proposer", 1)
		return
	}
	// a candidate that sent nothing so far commits to answers at the last moment: allowed on
	// chain, changes nothing but the "participated" bit of that identity
	var X *Actor
	for pass := 0; pass < 2 && X == nil; pass++ {
		for _, a := range pl.Cands {
			if len(pl.InBlock[a]) != 0 || w.ByAddr[a] == nil || c.sim.isNodeOwner(a) {
				continue
			}
			ps := c.pre[a].State
			// first choice: an identity that the ceremony is going to kill (its stake handling depends on "participated" before upgrade 12)
			if pass == 0 && (ps == state.Zombie || pl.Epoch < 5 && (ps == state.Newbie || ps == state.Candidate)) || pass == 1 {
				X = w.ByAddr[a]
				break
			}
		}
	}
	c.alt.enter()
	if X != nil {
		h := crypto.Hash([]byte("late"))
		tx := w.Tx(X, types.SubmitAnswersHashTx, nil, nil, h[:])
		if err := c.alt.TxPool.AddExternalTxs(validation.InboundTx, tx); err == nil {
			c.altTx = tx
			c.altNote = "late answers-hash of " + stateNames[w.Identity(X.Addr).State] + " identity that sent nothing else"
		}
	}
	if len(w.Accounts) > 0 {
		to := w.God.Addr
		c.alt.TxPool.AddExternalTxs(validation.InboundTx, w.Tx(w.Accounts[0], types.SendTx, &to, Dna(1), nil))
	}
	prop := w.Propose(c.alt)
	for _, tx := range c.alt.TxPool.VerifAll() {
		c.alt.TxPool.Remove(tx)
	}
	if !prop.Block.Header.Flags().HasFlag(types.ValidationFinished) {
		c.rep.Count("competing_proposal_not_final", 1)
		return
	}
	c.rep.Count("competing_proposals_built", 1)
	if c.altTx != nil {
		c.rep.Count("competing_proposals_with_late_ceremony_tx", 1)
	}
	c.rival.enter()
	if _, err := c.rival.Chain.ValidateBlock(prop.Block, nil, c.rival.Stats); err != nil {
		c.rep.Violation("epoch-result-differs:competing-proposal-first:"+ErrClass(err),
			fmt.Sprintf("a validation-finishing proposal for height %d built by one node is refused by another: %v", prop.Block.Height(), err), DescribeBlock(prop.Block))
	}
}

// zeroFlipCeremony handles a ceremony whose shard has no flip at all but in which somebody
// sent long answers: the lottery hands every candidate the placeholder long list [0], and
// evaluating the epoch then indexes flip 0 of an empty flip table. The first evaluation is
// made under panic capture so that the child survives and the event gets a stable signature.
// Returns false if the world cannot go on.
func (c *c17World) zeroFlipCeremony() bool {
	w, pl := c.w, c.sim.Plan
	if len(pl.Flips) != 0 {
		return true
	}
	c.rep.Count("real_ceremonies_without_flips", 1)
	long := 0
	for _, m := range pl.InBlock {
		if _, ok := m[types.SubmitLongAnswersTx]; ok {
			long++
		}
	}
	if long == 0 {
		return true
	}
	el := w.Eligible()
	if len(el) == 0 {
		el = []*Replica{w.View()}
	}
	p, stack := verifutil.Catch(func() { w.Propose(el[0]) })
	if p == nil {
		return true
	}
	c.rep.Violation("epoch-evaluation-panics:ceremony-without-flips",
		fmt.Sprintf("epoch %d has no flip in its only shard, %d candidates have long answers on chain (the lottery gave each the placeholder long list [0]); building the validation-finishing block panics in %s: %v",
			pl.Epoch, long, verifutil.TopRepoFrame(stack), p),
		map[string]interface{}{"world": c.describe(), "plan": pl.Describe(), "stack": verifutil.Trunc(stack, 3000)})
	return false
}

func (c *c17World) afterFinal(b *types.Block) {
	w, pl, rep := c.w, c.sim.Plan, c.rep
	// 1. canonicalised results of all evaluations of this height must be equal
	evs := w.EpochEvals()
	var ref *EpochEval
	failed := false
	nFirst, nCached := 0, 0
	for _, e := range evs {
		if e.Height != b.Height() {
			continue
		}
		if e.CacheHit {
			nCached++
		} else {
			nFirst++
		}
		if e.Replica == "alt" || e.Replica == "rival" {
			// these evaluated a DIFFERENT block for this height first; their cached dumps are
			// compared by block acceptance, not here (the returned result may legitimately
			// describe the other block's identities)
			continue
		}
		if ref == nil {
			ref = e
			failed = e.Failed
			continue
		}
		if e.Dump != ref.Dump {
			rep.Violation(fmt.Sprintf("epoch-result-dump-differs:%s", firstDumpDiff(ref.Dump, e.Dump)),
				fmt.Sprintf("height %d: TotalValidationResult of %s (evaluation #%d, cacheHit=%v, restarts=%d) differs from %s (evaluation #%d, cacheHit=%v): %s",
					b.Height(), e.Replica, e.Ordinal, e.CacheHit, e.Restarts, ref.Replica, ref.Ordinal, ref.CacheHit, firstDumpDiff(ref.Dump, e.Dump)),
				map[string]interface{}{"a": ref, "b": e, "world": c.describe()})
			break
		}
	}
	rep.Count("evals_first_pass", nFirst)
	rep.Count("evals_cache_hit", nCached)
	if ref != nil {
		for name, marker := range map[string]string{"bad_authors": `"BadAuthors":["`, "good_authors": `"GoodAuthors":["`, "rewarded_reporters": `"Reporters":["`,
			"successful_invites": `/age`, "pools": `"Pools":["`, "non_validated_stakes": `"NonValidated":["`} {
			if strings.Contains(ref.Dump, marker) {
				rep.Count("real_epochs_with_"+name, 1)
			}
		}
	}
	// 2. state contents equal everywhere
	var refR *Replica
	var refD StateDigest
	for _, r := range w.Replicas {
		if !r.Alive {
			continue
		}
		d := DigestState(r.AppState)
		if refR == nil {
			refR, refD = r, d
			continue
		}
		if d != refD || r.Head().Hash() != refR.Head().Hash() {
			rep.Violation("post-epoch-state-differs:"+c.variantOf(r, nil)+":"+FirstStateDiff(StateKV(refR.AppState), StateKV(r.AppState)),
				fmt.Sprintf("after validation-finishing block %d the state of %s differs from %s: %s vs %s", b.Height(), r.Name, refR.Name, d, refD), c.describe())
		}
	}
	// 3. implications on the real outcomes
	rep.Count("real_epochs_finished", 1)
	rep.Count(fmt.Sprintf("real_epochs_finished_v%d", int(w.Opt.Version)), 1)
	if failed {
		rep.Count("real_epochs_failed_validation", 1)
	}
	changes := 0
	var trans []string
	st := w.View().AppState.State
	for a, id := range c.pre {
		post := st.GetIdentity(a).State
		rep.Count("real_prior_"+stateNames[id.State], 1)
		if post != id.State {
			changes++
		}
		trans = append(trans, fmt.Sprintf("%s:%s>%s", fmtAddr(a), stateNames[id.State], stateNames[post]))
		rep.Count("real_transition_"+stateNames[id.State]+"_"+stateNames[post], 1)
		if failed {
			continue // a void ceremony (nobody at all qualified) leaves every status untouched by design
		}
		desc := func(what string) string {
			return fmt.Sprintf("epoch %d (block %d): identity %s was %s, %s, and is %s afterwards", pl.Epoch, b.Height(), fmtAddr(a), stateNames[id.State], what, stateNames[post])
		}
		rd := map[string]interface{}{"world": c.describe(), "plan": pl.Describe(), "address": a.Hex()}
		lacking := uint8(len(id.Flips)) < id.RequiredFlips
		inb := pl.InBlock[a]
		_, hasShort := inb[types.SubmitShortAnswersTx]
		_, hasLong := inb[types.SubmitLongAnswersTx]
		_, hasHash := inb[types.SubmitAnswersHashTx]
		switch {
		case id.State == state.Invite:
			rep.Count("real_unactivated_invites", 1)
			if post != state.Killed && post != state.Undefined {
				rep.Violation("rule:real:invite-not-terminated", desc("an invitation that was not activated"), rd)
			}
		case id.State == state.Killed || id.State == state.Undefined:
			if post != state.Killed && post != state.Undefined {
				rep.Violation("rule:real:terminated-came-back:"+stateNames[id.State], desc("terminated/undefined before the validation"), rd)
			}
		}
		if lacking {
			rep.Count("real_lacking_flips", 1)
			if validatedState(post) {
				rep.Violation("rule:real:lacking-flips-validated:"+stateNames[id.State], desc(fmt.Sprintf("had made %d of %d required flips", len(id.Flips), id.RequiredFlips)), rd)
			}
		}
		if id.State >= state.Candidate && id.State != state.Killed {
			if !hasShort && !hasLong && !hasHash {
				rep.Count("real_sent_nothing", 1)
				if validatedState(post) {
					rep.Violation("rule:real:absent-validated:"+stateNames[id.State], desc("had no answers hash, no short and no long answers in any block of the epoch"), rd)
				}
			} else if !hasShort || !hasLong {
				rep.Count("real_missed_one_session", 1)
				if validatedState(post) {
					rep.Violation("rule:real:missed-session-validated:"+stateNames[id.State], desc(fmt.Sprintf("short answers on chain=%v, long answers on chain=%v", hasShort, hasLong)), rd)
				}
			}
		}
	}
	sort.Strings(trans)
	if changes > 0 {
		rep.Count("real_epochs_with_status_change", 1)
		rep.Distinct("epoch", b.Hash().Hex())
	}
	rep.Count("real_status_changes", changes)
	if len(pl.Chain3) == 4 {
		rep.Count("real_transitive_chain3_epochs_survived", 1)
		// both A and P newly validated in this epoch => the order-sensitive situation was live
		a, p := c.pre[pl.Chain3[0]], c.pre[pl.Chain3[1]]
		if !validatedState(a.State) && !validatedState(p.State) && validatedState(st.GetIdentity(pl.Chain3[0]).State) && validatedState(st.GetIdentity(pl.Chain3[1]).State) {
			rep.Count("real_transitive_chain3_both_validated", 1)
		}
	} else if len(pl.Chain3) == 3 {
		rep.Count("real_transitive_chain2_epochs", 1)
	}
	if len(pl.Chain3) >= 3 {
		// the ceremony removes the delegation of a newly validated delegator whose delegatee delegates itself
		a := c.pre[pl.Chain3[0]]
		postA := st.GetIdentity(pl.Chain3[0])
		if a.Delegatee() != nil && postA.Delegatee() == nil && validatedState(postA.State) {
			rep.Count("real_transitive_delegation_removed", 1)
		}
	}
	for _, id := range c.pre {
		if id.Delegatee() != nil {
			rep.Count("real_delegated_identities", 1)
		}
	}
	if c.shard == 0 && c.worldNo == 0 && pl.Epoch >= 1 {
		d := ""
		if ref != nil {
			d = ref.Dump
		}
		rep.Sample(map[string]interface{}{"world": c.describe(), "plan": pl.Describe(), "final_block": DescribeBlock(b), "transitions": trans,
			"canonical_epoch_result": verifutil.Trunc(d, 3000), "evaluations_first_pass": nFirst, "evaluations_cache_hit": nCached})
	}
}

func firstDumpDiff(a, b string) string {
	// name the first differing top-level section of two canonical dumps
	for _, key := range []string{"IdentitiesCount", "Failed", "Pools", "NonValidated", "BadAuthors", "GoodAuthors", "AuthorRes", "GoodInviters", "Reporters"} {
		ia, ib := strings.Index(a, `"`+key+`"`), strings.Index(b, `"`+key+`"`)
		if ia < 0 || ib < 0 {
			continue
		}
		ea, eb := sectionEnd(a, ia), sectionEnd(b, ib)
		if a[ia:ea] != b[ib:eb] {
			return key
		}
	}
	return "other"
}

func sectionEnd(s string, from int) int {
	depth := 0
	for i := from; i < len(s); i++ {
		switch s[i] {
		case '[', '{':
			depth++
		case ']', '}':
			if depth == 0 {
				return i
			}
			depth--
		case ',':
			if depth == 0 {
				return i
			}
		}
	}
	return len(s)
}

func c17Version(shard int) config.ConsensusVerson {
	if v := os.Getenv("VERIF_C17_VERSION"); v != "" {
		var n int
		fmt.Sscan(v, &n)
		return config.ConsensusVerson(n)
	}
	// validation.SetAppConfig is process-global: one consensus version per child process
	switch shard % 8 {
	case 3:
		return config.ConsensusV11
	case 7:
		return config.ConsensusV10
	}
	return config.ConsensusV12
}

func TestVerifC17Real(t *testing.T) {
	if !verifutil.Enabled() {
		t.Skip("verif harness")
	}
	rep := verifutil.NewReport()
	defer rep.Write()
	shard := verifutil.Shard()
	nWorlds := verifutil.Scale(2, 12)
	nEpochs := verifutil.Scale(3, 4)
	K := verifutil.Scale(3, 6)
	orders := map[string]bool{}
	for wn := 0; wn < nWorlds; wn++ {
		rng := verifutil.Stream(17, uint64(wn))
		seed := rng.U64()>>16 | 1
		o := Options{Seed: seed, Version: c17Version(shard), NNodes: 3, NIdent: rng.Range(9, 24), NAccounts: 2, Epoch: EpochReal,
			ValidationInterval: 35 * time.Minute, FirstCeremonyIn: 30 * time.Minute, GodIsIdentity: (shard+wn)%6 != 5, DelegationSwitchRange: 4}
		// node owners must be able to stay validated for several epochs: a genesis Verified
		// identity has no score history and is killed by the first ceremony that has flips
		// (fewer than 13 qualified flips), so worlds whose node identities are all Human are
		// used (the genesis states are drawn from the world seed)
		var w *World
		for try := 0; ; try++ {
			w = NewWorld(o)
			ok := true
			for _, n := range w.Nodes {
				ok = ok && state.IdentityState(w.Alloc[n.Addr].State) == state.Human
			}
			if ok || try > 200 {
				break
			}
			w.Cleanup()
			o.Seed += 2
		}
		seed = o.Seed
		c := &c17World{w: w, rep: rep, variant: map[*Replica]string{}, rsPhase: map[*Replica]string{}, K: K, orders: orders, shard: shard, worldNo: wn}
		c.variant[w.Replicas[0]] = "sees-all"
		mk := func(owner *Actor, name, variant string) *Replica {
			r := w.NewReplica(owner, dbm.NewMemDB())
			r.Name, r.Observer = name, true
			c.variant[r] = variant
			return r
		}
		c.restarters = []*Replica{mk(w.God, "restart-a", "restart"), mk(w.God, "restart-b", "restart")}
		c.fresh = mk(w.God, "blind", "blind") // no mempool traffic at all; re-created K times at the final block ("fresh")
		c.rival = mk(w.God, "rival", "rival")
		c.alt = mk(w.Nodes[0], "alt", "alt")
		sim := NewCeremonySim(w, rng.Fork(1), rep)
		c.sim = sim
		sim.Debug = os.Getenv("VERIF_C17_DEBUG") != ""
		if sim.Debug {
			log.Root().SetHandler(log.FuncHandler(func(r *log.Record) error {
				if r.Msg == "Tx is invalid" || r.Msg == "Tx removed by nonce" {
					rep.Count(fmt.Sprintf("dbg_pool_%s_%v", r.Msg, ErrClass(fmt.Errorf("%v", r.Ctx[len(r.Ctx)-1]))), 1)
				}
				return nil
			}))
		}
		for _, r := range c.restarters {
			sim.Profiles[r] = &NetProfile{LossPct: 15, MaxDelay: 3}
		}
		sim.Profiles[w.Replicas[2]] = &NetProfile{LossPct: 25, MaxDelay: 3} // one node with a poor connection
		if err := w.Prologue(); err != nil {
			t.Fatal(err)
		}
		sim.OnRefused = func(res *BlockResult) {
			b := res.Block
			for n, e := range res.Errs {
				var rr *Replica
				for _, r := range w.Replicas {
					if r.Name == n {
						rr = r
					}
				}
				v := "node"
				if rr != nil {
					v = c.variantOf(rr, res.Proposer)
				}
				if b.Header.Flags().HasFlag(types.ValidationFinished) && (c.nondet || c.chainLive) {
					// already reported as order dependence of the epoch result: this refusal is a consequence
					rep.Count("refusals_following_order_dependence", 1)
				} else if b.Header.Flags().HasFlag(types.ValidationFinished) {
					detail := ""
					if (v == "alt" || v == "rival") && c.altNote != "" {
						detail = " (the node had validated a competing proposal for the same height before: " + c.altNote + ")"
						v += "-after-competing-proposal"
					}
					rep.Violation("epoch-result-differs:"+v+":receive:"+ErrClass(e),
						fmt.Sprintf("validation-finishing block %d of epoch %d is refused by %s (%s)%s: %v", b.Height(), sim.Plan.Epoch, n, v, detail, e),
						map[string]interface{}{"block": DescribeBlock(b), "plan": sim.Plan.Describe(), "world": c.describe()})
				} else {
					rep.Violation("block-refused-in-real-epoch:"+v+":"+BlockKind(b)+":"+ErrClass(e),
						fmt.Sprintf("block %d (%s) is refused by %s (%s): %v", b.Height(), BlockKind(b), n, v, e),
						map[string]interface{}{"block": DescribeBlock(b), "world": c.describe()})
				}
			}
		}
		sim.OnPhase = func(phase string) {
			for _, r := range c.restarters {
				if c.rsPhase[r] == phase {
					if err := r.Restart(); err != nil {
						rep.Violation("restart-failed:"+phase, fmt.Sprintf("clean restart of a follower in phase %s failed: %v", phase, err), nil)
						continue
					}
					rep.Count("restart_at_"+phase, 1)
				}
			}
			// in every third epoch one of the PROPOSING nodes is restarted too: it may well be the one
			// that builds the validation-finishing block from its restored ceremony state
			if c.nodeRestartPhase == phase {
				r := w.Replicas[3]
				if err := r.Restart(); err != nil {
					rep.Violation("restart-failed:"+phase, fmt.Sprintf("clean restart of a proposing node in phase %s failed: %v", phase, err), nil)
				} else {
					rep.Count("restart_of_proposing_node", 1)
					c.nodeRestarted = r
				}
			}
		}
		sim.BeforeFinal = func() bool {
			c.snapshotPre()
			if !c.zeroFlipCeremony() {
				return false
			}
			if os.Getenv("VERIF_C17_NOALT") == "" {
				c.competingProposal()
			}
			return true
		}
		w.beforeDistribute = func(b *types.Block, p *Replica) {
			if b.Header.Flags().HasFlag(types.ValidationFinished) {
				c.finalBlock(b, p)
			}
		}
		epochsHere := nEpochs
		if verifutil.Thorough() && wn == 0 && o.Version != config.ConsensusV12 {
			// before upgrade 12 the cached "participated" bit decides the stake handling of a killed
			// Suspended/Zombie identity of age >= 5: needs a long-lived world (competing proposals, suspect i)
			epochsHere = 8
		}
		for e := 0; e < epochsHere && !sim.Stopped; e++ {
			rep.Progress("C17 world %d seed %d epoch %d", wn, seed, e)
			for i, r := range c.restarters {
				c.rsPhase[r] = c17Phases[(shard+wn+e+2*i)%4]
			}
			// transitive delegation shapes: A->P->Q in about half of the epochs; the 3-link chain
			// A->P->Q->R (whose outcome turned out to depend on map order, see spec) only in the
			// last epoch of every second shard's world, because the world rarely survives it
			sim.ChainLinks = 0
			if e == epochsHere-1 && (shard+wn)%2 == 0 {
				sim.ChainLinks = 3
			} else if rng.Intn(2) == 0 {
				sim.ChainLinks = 2
			}
			if os.Getenv("VERIF_C17_NOCHAIN") != "" && sim.ChainLinks == 3 {
				sim.ChainLinks = 2
			}
			c.pre, c.nondet, c.chainLive = nil, false, false
			c.nodeRestartPhase, c.nodeRestarted = "", nil
			if (shard+wn+e)%3 == 0 {
				c.nodeRestartPhase = c17Phases[(shard+wn+2*e)%4]
			}
			b := sim.RunEpoch()
			if sim.Plan != nil && len(sim.Plan.Chain3) == 4 {
				rep.Count("real_transitive_chain3_epochs", 1)
			}
			if b == nil {
				if !sim.Stopped {
					rep.Note("world %d epoch %d did not finish", wn, e)
					rep.Count("real_epochs_unfinished", 1)
				}
				break
			}
			if c.pre == nil {
				rep.Note("final block without pre-state snapshot")
				continue
			}
			if b.IsEmpty() {
				rep.Count("real_final_block_empty", 1)
			}
			c.afterFinal(b)
			for cls, n := range sim.Plan.Describe()["behaviours"].(map[string]int) {
				rep.Count("behaviour_"+cls, n)
			}
		}
		for k, v := range sim.Included {
			rep.Count("included_"+k, v)
		}
		w.DropEpochEvals()
		w.Cleanup()
	}
	rep.Count("distinct_map_orders_witnessed", len(orders))
}
