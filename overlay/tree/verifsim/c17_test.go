package verifsim

import (
	"fmt"
	"os"
	"sort"
	"strings"
	"testing"
	"time"

	"github.com/idena-network/idena-go/blockchain/types"
	"github.com/idena-network/idena-go/blockchain/validation"
	"github.com/idena-network/idena-go/common"
	"github.com/idena-network/idena-go/config"
	"github.com/idena-network/idena-go/core/state"
	"github.com/idena-network/idena-go/crypto"
	"github.com/idena-network/idena-go/log"
	statsTypes "github.com/idena-network/idena-go/stats/types"
	"github.com/idena-network/idena-go/verifutil"
	dbm "github.com/tendermint/tm-db"
)

// Property C17 part (b): the epoch result computed by the REAL ValidationCeremony depends
// only on on-chain data. See /verif/DESIGN.md §C17 and /verif/vlib/specs/C17.py.

var c17Phases = []string{"lottery", "short", "long", "afterlong"}

var stateNames = map[state.IdentityState]string{state.Undefined: "Undefined", state.Invite: "Invite", state.Candidate: "Candidate", state.Verified: "Verified",
	state.Suspended: "Suspended", state.Killed: "Killed", state.Zombie: "Zombie", state.Newbie: "Newbie", state.Human: "Human"}

// c17MapOrderProbe iterates a small map next to each evaluation; the number of distinct
// orders it produced is evidence that the runtime really varied map iteration.
func c17MapOrderProbe(seen map[string]bool) {
	m := map[int]int{1: 1, 2: 2, 3: 3, 4: 4, 5: 5, 6: 6, 7: 7, 8: 8, 9: 9, 10: 10, 11: 11, 12: 12}
	s := ""
	for k := range m {
		s += fmt.Sprint(k, ",")
	}
	seen[s] = true
}

func validatedState(s state.IdentityState) bool {
	return s == state.Newbie || s == state.Verified || s == state.Human
}

type c17World struct {
	w                *World
	sim              *CeremonySim
	rep              *verifutil.Report
	variant          map[*Replica]string // replica -> variant class used in violation signatures
	restarters       []*Replica
	rsPhase          map[*Replica]string
	fresh            *Replica
	alt, rival       *Replica
	K                int
	orders           map[string]bool
	pre              map[common.Address]state.Identity
	shard            int
	worldNo          int
	altTx            *types.Transaction
	stats            *statsTypes.ValidationStats // statistics object of the proposer's first-pass evaluation
	nodeRestartPhase string                      // phase in which the proposing node Replicas[3] is restarted this epoch ("" = not)
	nodeRestarted    *Replica                    // ... done
	chainLive        bool                        // the 3-link transitive delegation chain is on chain in this epoch
	nondet           bool                        // the proposer's own re-executions of the final block disagreed
	altNote          string
	pfx              string            // counter prefix of the job
	reorged          map[*Replica]bool // replicas that switched away from a minority block with answers txs in this epoch
	restartedAfter   map[*Replica]bool // ... and were restarted afterwards (before the validation-finishing block)
	pendingRestart   map[*Replica]int  // restart after that many further blocks
	reorgVariant     int
	restartsBefore   map[*Replica]int // restart counters at the beginning of the epoch
	lateDumpDiffs    []string         // evaluations inside an ADOPTED late fork whose returned epoch result differs from everybody else's
}

// cnt adds to a coverage counter of this job.
func (c *c17World) cnt(name string, n int) { c.rep.Count(c.pfx+name, n) }

// label appends the history class of r in this epoch to a variant name.
func (c *c17World) label(r *Replica, v string) string {
	if c.reorged[r] {
		if i := strings.Index(v, "-"); i > 0 {
			v = v[:i]
		}
		return v + "-after-answers-reorg"
	}
	return v
}

func (c *c17World) variantOf(r *Replica, proposer *Replica) string {
	if r == proposer {
		return "proposer"
	}
	if v, ok := c.variant[r]; ok {
		if ph, ok := c.rsPhase[r]; ok && ph != "" {
			return c.label(r, v+"-"+ph)
		}
		return c.label(r, v)
	}
	return c.label(r, "node")
}

// evalOnCheck executes b once on a fresh private check state of r.
func (c *c17World) evalOnCheck(r *Replica, b *types.Block, variant, pass string) bool {
	r.enter()
	c17MapOrderProbe(c.orders)
	_, _, err := r.Chain.VerifValidateOnCheck(b)
	c.rep.Eval(1)
	c.cnt("epoch_evaluations", 1)
	c.cnt("variant_"+strings.SplitN(variant, "-", 2)[0]+"_"+pass, 1)
	if c.reorged[r] {
		c.cnt("evals_by_replica_after_answers_reorg", 1)
	}
	if err != nil {
		sig := "epoch-result-differs:" + variant + ":" + pass + ":" + ErrClass(err)
		if c.chainLive && !c.reorged[r] {
			sig = "epoch-result-order-dependent:transitive-delegation-chain"
			c.nondet = true
		}
		c.rep.Violation(sig,
			fmt.Sprintf("validation-finishing block %d built by the proposer is refused by %s (%s, %s evaluation): %v", b.Height(), r.Name, variant, pass, err),
			map[string]interface{}{"block": DescribeBlock(b), "plan": c.sim.Plan.Describe(), "world": c.describe()})
		return false
	}
	return true
}

func (c *c17World) describe() map[string]interface{} {
	return map[string]interface{}{"world_seed": c.w.Opt.Seed, "shard": c.shard, "world": c.worldNo, "consensus": int(c.w.Opt.Version),
		"identities": c.w.Opt.NIdent, "god_is_identity": c.w.Opt.GodIsIdentity, "epoch_no": c.sim.EpochNo, "job": c.pfx + "real", "answers_reorg": c.describeReorg()}
}

// finalBlock is called with the validation-finishing block after the proposer built it and
// before anybody else saw it.
func (c *c17World) finalBlock(b *types.Block, p *Replica) {
	w := c.w
	c.rep.Progress("C17 world %d seed %d: final block %d of epoch %d", c.worldNo, w.Opt.Seed, b.Height(), c.sim.Plan.Epoch)
	c.cnt("real_epochs_driven", 1)
	if p == c.nodeRestarted {
		c.cnt("final_block_built_by_restarted_node", 1)
	}
	if c.reorged[p] {
		c.cnt("final_block_built_by_reorganised_node", 1)
	}
	// the proposer evaluated once while building (first pass); every further evaluation hits its
	// cache. Same node, same block, same prior state: every evaluation must give the same verdict.
	c.stats = p.Real().VC.VerifValidationStats()
	live := len(c.sim.Plan.Chain3) == 4
	c.chainLive = live
	n := c.K
	if live {
		n = 40
	}
	acc, refd := 0, 0
	var lastErr error
	for i := 0; i < n; i++ {
		p.enter()
		c17MapOrderProbe(c.orders)
		_, _, err := p.Chain.VerifValidateOnCheck(b)
		c.rep.Eval(1)
		c.cnt("epoch_evaluations", 1)
		c.cnt("variant_proposer_cached", 1)
		if err != nil {
			refd++
			lastErr = err
		} else {
			acc++
		}
	}
	if refd > 0 {
		cause := "no-known-cause"
		if live {
			cause = "transitive-delegation-chain"
			c.cnt("order_dependence_observed_with_chain3", 1)
		}
		c.nondet = true
		what := fmt.Sprintf("the proposer %s re-executed its own validation-finishing block %d (epoch %d) %d times on fresh check states of the same head: %d accepted, %d refused (%v)",
			p.Name, b.Height(), c.sim.Plan.Epoch, n, acc, refd, lastErr)
		if live {
			ch := c.sim.Plan.Chain3
			what += fmt.Sprintf("; delegation chain on chain before the lottery: %s(%s) -> %s(%s) -> %s -> %s, the first two not validated before this ceremony",
				fmtAddr(ch[0]), stateNames[c.pre[ch[0]].State], fmtAddr(ch[1]), stateNames[c.pre[ch[1]].State], fmtAddr(ch[2]), fmtAddr(ch[3]))
		}
		if acc > 0 || live {
			c.rep.Violation("epoch-result-order-dependent:"+cause, what, map[string]interface{}{"block": DescribeBlock(b), "plan": c.sim.Plan.Describe(), "world": c.describe(), "accepted": acc, "refused": refd})
		} else {
			c.rep.Violation("epoch-result-differs:proposer:cached:"+ErrClass(lastErr), what, map[string]interface{}{"block": DescribeBlock(b), "plan": c.sim.Plan.Describe(), "world": c.describe()})
		}
		return
	}
	for _, r := range w.Replicas {
		if !r.Alive || r == p || r == c.fresh {
			continue
		}
		v := c.variantOf(r, p)
		pass := "first"
		if _, _, hit := r.Real().VC.VerifEpochCache(b.Height()); hit {
			pass = "cached" // the replica validated a competing proposal for this height before
		}
		for i := 0; i < c.K; i++ {
			if !c.evalOnCheck(r, b, v, pass) {
				break
			}
			pass = "cached"
		}
	}
	// the follower that never saw a transaction outside blocks evaluates as it is ...
	for i := 0; i < c.K; i++ {
		pass := "cached"
		if i == 0 {
			pass = "first"
		}
		if !c.evalOnCheck(c.fresh, b, c.label(c.fresh, "blind"), pass) {
			break
		}
	}
	// ... and then gives K independent first-pass evaluations by ceremony objects re-created on its surviving DB
	for i := 0; i < c.K; i++ {
		if err := c.fresh.Restart(); err != nil {
			c.rep.Violation("restart-failed:final", fmt.Sprintf("restart of a follower before the validation-finishing block failed: %v", err), nil)
			break
		}
		c.cnt("restart_at_final", 1)
		if c.reorged[c.fresh] {
			c.restartedAfter[c.fresh] = true
			c.cnt("restart_after_answers_reorg", 1)
		}
		if !c.evalOnCheck(c.fresh, b, c.label(c.fresh, "fresh"), "first") {
			break
		}
	}
}

func (c *c17World) snapshotPre() {
	w := c.w
	c.pre = map[common.Address]state.Identity{}
	st := w.View().AppState.State
	var addrs []common.Address
	st.IterateOverIdentities(func(a common.Address, _ state.Identity) { addrs = append(addrs, a) })
	for _, a := range addrs {
		c.pre[a] = st.GetIdentity(a)
	}
}

// competingProposal lets the observer `alt` (owned by an online node identity) build a
// DIFFERENT validation-finishing block for the coming height and lets `rival` validate it
// (not insert it), as a node does with a proposal that then loses the round.
func (c *c17World) competingProposal() {
	w, pl := c.w, c.sim.Plan
	c.altTx, c.altNote = nil, ""
	if len(pl.Chain3) == 4 {
		return // the epoch result of this epoch is known to depend on map order; a second proposal adds nothing
	}
	if c.alt == nil || !c.alt.Alive || !c.alt.CanPropose() {
		c.cnt("competing_proposal_skipped_no_proposer", 1)
		return
	}
	// a candidate that sent nothing so far commits to answers at the last moment: allowed on
	// chain, changes nothing but the "participated" bit of that identity
	var X *Actor
	for pass := 0; pass < 2 && X == nil; pass++ {
		for _, a := range pl.Cands {
			if len(pl.InBlock[a]) != 0 || w.ByAddr[a] == nil || c.sim.isNodeOwner(a) {
				continue
			}
			ps := c.pre[a].State
			// first choice: an identity that the ceremony is going to kill (its stake handling depends on "participated" before upgrade 12)
			if pass == 0 && (ps == state.Zombie || pl.Epoch < 5 && (ps == state.Newbie || ps == state.Candidate)) || pass == 1 {
				X = w.ByAddr[a]
				break
			}
		}
	}
	c.alt.enter()
	if X != nil {
		h := crypto.Hash([]byte("late"))
		tx := w.Tx(X, types.SubmitAnswersHashTx, nil, nil, h[:])
		if err := c.alt.TxPool.AddExternalTxs(validation.InboundTx, tx); err == nil {
			c.altTx = tx
			c.altNote = "late answers-hash of " + stateNames[w.Identity(X.Addr).State] + " identity that sent nothing else"
		}
	}
	if len(w.Accounts) > 0 {
		to := w.God.Addr
		c.alt.TxPool.AddExternalTxs(validation.InboundTx, w.Tx(w.Accounts[0], types.SendTx, &to, Dna(1), nil))
	}
	prop := w.Propose(c.alt)
	for _, tx := range c.alt.TxPool.VerifAll() {
		c.alt.TxPool.Remove(tx)
	}
	if !prop.Block.Header.Flags().HasFlag(types.ValidationFinished) {
		c.cnt("competing_proposal_not_final", 1)
		return
	}
	c.cnt("competing_proposals_built", 1)
	if c.altTx != nil {
		c.cnt("competing_proposals_with_late_ceremony_tx", 1)
	}
	c.rival.enter()
	if _, err := c.rival.Chain.ValidateBlock(prop.Block, nil, c.rival.Stats); err != nil {
		c.rep.Violation("epoch-result-differs:competing-proposal-first:"+ErrClass(err),
			fmt.Sprintf("a validation-finishing proposal for height %d built by one node is refused by another: %v", prop.Block.Height(), err), DescribeBlock(prop.Block))
	}
}

// zeroFlipCeremony handles a ceremony whose shard has no flip at all but in which somebody
// sent long answers: the lottery hands every candidate the placeholder long list [0], and
// evaluating the epoch then indexes flip 0 of an empty flip table. The first evaluation is
// made under panic capture so that the child survives and the event gets a stable signature.
// Returns false if the world cannot go on.
func (c *c17World) zeroFlipCeremony() bool {
	w, pl := c.w, c.sim.Plan
	empty := map[common.ShardId]bool{}
	for sh := common.ShardId(1); sh <= common.ShardId(pl.NShards); sh++ {
		if len(pl.FlipsBy[sh]) == 0 {
			empty[sh] = true
		}
	}
	if len(empty) == 0 {
		return true
	}
	if len(empty) == pl.NShards {
		c.cnt("real_ceremonies_without_flips", 1)
	}
	c.cnt("real_shards_without_flips", len(empty))
	long := 0
	for a, m := range pl.InBlock {
		if _, ok := m[types.SubmitLongAnswersTx]; ok && empty[pl.ShardOf[a]] {
			long++
		}
	}
	if long == 0 {
		return true
	}
	el := w.Eligible()
	if len(el) == 0 {
		el = []*Replica{w.View()}
	}
	p, stack := verifutil.Catch(func() { w.Propose(el[0]) })
	if p == nil {
		return true
	}
	c.rep.Violation("epoch-evaluation-panics:ceremony-without-flips",
		fmt.Sprintf("epoch %d has a shard without any flip, %d of its candidates have long answers on chain (the lottery gave each the placeholder long list [0]); building the validation-finishing block panics in %s: %v",
			pl.Epoch, long, verifutil.TopRepoFrame(stack), p),
		map[string]interface{}{"world": c.describe(), "plan": pl.Describe(), "stack": verifutil.Trunc(stack, 3000)})
	return false
}

func (c *c17World) afterFinal(b *types.Block) {
	w, pl, rep := c.w, c.sim.Plan, c.rep
	// 1. canonicalised results of all evaluations of this height must be equal
	evs := w.EpochEvals()
	var ref *EpochEval
	failed := false
	nFirst, nCached := 0, 0
	var lateEvals []*EpochEval
	for _, e := range evs {
		if e.Height != b.Height() {
			continue
		}
		if e.CacheHit {
			nCached++
		} else {
			nFirst++
		}
		if rp := c.sim.Reorg; rp != nil && rp.LateNames[e.Replica] {
			// evaluated inside the validation of a fork that contains this block: judged by lateVerdict (one finding, one signature)
			if !c.lateRefusedName(e.Replica) {
				lateEvals = append(lateEvals, e)
			}
			continue
		}
		if e.Replica == "alt" || e.Replica == "rival" {
			// these evaluated a DIFFERENT block for this height first; their cached dumps are
			// compared by block acceptance, not here (the returned result may legitimately
			// describe the other block's identities)
			continue
		}
		if ref == nil {
			ref = e
			failed = e.Failed
			continue
		}
		if e.Dump != ref.Dump {
			rep.Violation(fmt.Sprintf("epoch-result-dump-differs:%s", firstDumpDiff(ref.Dump, e.Dump)),
				fmt.Sprintf("height %d: TotalValidationResult of %s (evaluation #%d, cacheHit=%v, restarts=%d) differs from %s (evaluation #%d, cacheHit=%v): %s",
					b.Height(), e.Replica, e.Ordinal, e.CacheHit, e.Restarts, ref.Replica, ref.Ordinal, ref.CacheHit, firstDumpDiff(ref.Dump, e.Dump)),
				map[string]interface{}{"a": ref, "b": e, "world": c.describe()})
			break
		}
	}
	c.lateDumpDiffs = nil
	for _, e := range lateEvals {
		if ref != nil && e.Dump != ref.Dump {
			c.lateDumpDiffs = append(c.lateDumpDiffs, fmt.Sprintf("%s (evaluation #%d, cacheHit=%v, restarts=%d): %s", e.Replica, e.Ordinal, e.CacheHit, e.Restarts, firstDumpDiff(ref.Dump, e.Dump)))
		} else if ref != nil {
			c.cnt("late_fork_evaluations_equal", 1)
		}
	}
	c.cnt("evals_first_pass", nFirst)
	c.cnt("evals_cache_hit", nCached)
	if ref != nil {
		for name, marker := range map[string]string{"bad_authors": `"BadAuthors":["`, "good_authors": `"GoodAuthors":["`, "rewarded_reporters": `"Reporters":["`,
			"successful_invites": `/age`, "pools": `"Pools":["`, "non_validated_stakes": `"NonValidated":["`} {
			if strings.Contains(ref.Dump, marker) {
				c.cnt("real_epochs_with_"+name, 1)
			}
		}
	}
	// 2. state contents equal everywhere
	var refR *Replica
	var refD StateDigest
	for _, r := range w.Replicas {
		if !r.Alive {
			continue
		}
		d := DigestState(r.AppState)
		if refR == nil {
			refR, refD = r, d
			continue
		}
		if d != refD || r.Head().Hash() != refR.Head().Hash() {
			rep.Violation("post-epoch-state-differs:"+c.variantOf(r, nil)+":"+FirstStateDiff(StateKV(refR.AppState), StateKV(r.AppState)),
				fmt.Sprintf("after validation-finishing block %d the state of %s differs from %s: %s vs %s", b.Height(), r.Name, refR.Name, d, refD), c.describe())
		}
	}
	// 3. implications on the real outcomes
	c.cnt("real_epochs_finished", 1)
	c.cnt(fmt.Sprintf("real_epochs_finished_v%d", int(w.Opt.Version)), 1)
	if failed {
		c.cnt("real_epochs_failed_validation", 1)
	}
	changes := 0
	var trans []string
	st := w.View().AppState.State
	for a, id := range c.pre {
		post := st.GetIdentity(a).State
		c.cnt("real_prior_"+stateNames[id.State], 1)
		if post != id.State {
			changes++
		}
		trans = append(trans, fmt.Sprintf("%s:%s>%s", fmtAddr(a), stateNames[id.State], stateNames[post]))
		c.cnt("real_transition_"+stateNames[id.State]+"_"+stateNames[post], 1)
		if failed {
			continue // a void ceremony (nobody at all qualified) leaves every status untouched by design
		}
		desc := func(what string) string {
			return fmt.Sprintf("epoch %d (block %d): identity %s was %s, %s, and is %s afterwards", pl.Epoch, b.Height(), fmtAddr(a), stateNames[id.State], what, stateNames[post])
		}
		rd := map[string]interface{}{"world": c.describe(), "plan": pl.Describe(), "address": a.Hex()}
		lacking := uint8(len(id.Flips)) < id.RequiredFlips
		inb := pl.InBlock[a]
		_, hasShort := inb[types.SubmitShortAnswersTx]
		_, hasLong := inb[types.SubmitLongAnswersTx]
		_, hasHash := inb[types.SubmitAnswersHashTx]
		switch {
		case id.State == state.Invite:
			c.cnt("real_unactivated_invites", 1)
			if post != state.Killed && post != state.Undefined {
				rep.Violation("rule:real:invite-not-terminated", desc("an invitation that was not activated"), rd)
			}
		case id.State == state.Killed || id.State == state.Undefined:
			if post != state.Killed && post != state.Undefined {
				rep.Violation("rule:real:terminated-came-back:"+stateNames[id.State], desc("terminated/undefined before the validation"), rd)
			}
		}
		if lacking {
			c.cnt("real_lacking_flips", 1)
			if validatedState(post) {
				rep.Violation("rule:real:lacking-flips-validated:"+stateNames[id.State], desc(fmt.Sprintf("had made %d of %d required flips", len(id.Flips), id.RequiredFlips)), rd)
			}
		}
		if id.State >= state.Candidate && id.State != state.Killed {
			if !hasShort && !hasLong && !hasHash {
				c.cnt("real_sent_nothing", 1)
				if validatedState(post) {
					rep.Violation("rule:real:absent-validated:"+stateNames[id.State], desc("had no answers hash, no short and no long answers in any block of the epoch"), rd)
				}
			} else if !hasShort || !hasLong {
				c.cnt("real_missed_one_session", 1)
				if validatedState(post) {
					rep.Violation("rule:real:missed-session-validated:"+stateNames[id.State], desc(fmt.Sprintf("short answers on chain=%v, long answers on chain=%v", hasShort, hasLong)), rd)
				}
			}
		}
	}
	if !failed {
		c.evidenceImplication(b, st)
	}
	c.reorgEvidence(b)
	sort.Strings(trans)
	if changes > 0 {
		c.cnt("real_epochs_with_status_change", 1)
		rep.Distinct("epoch", b.Hash().Hex())
	}
	c.cnt("real_status_changes", changes)
	if len(pl.Chain3) == 4 {
		c.cnt("real_transitive_chain3_epochs_survived", 1)
		// both A and P newly validated in this epoch => the order-sensitive situation was live
		a, p := c.pre[pl.Chain3[0]], c.pre[pl.Chain3[1]]
		if !validatedState(a.State) && !validatedState(p.State) && validatedState(st.GetIdentity(pl.Chain3[0]).State) && validatedState(st.GetIdentity(pl.Chain3[1]).State) {
			c.cnt("real_transitive_chain3_both_validated", 1)
		}
	} else if len(pl.Chain3) == 3 {
		c.cnt("real_transitive_chain2_epochs", 1)
	}
	if len(pl.Chain3) >= 3 {
		// the ceremony removes the delegation of a newly validated delegator whose delegatee delegates itself
		a := c.pre[pl.Chain3[0]]
		postA := st.GetIdentity(pl.Chain3[0])
		if a.Delegatee() != nil && postA.Delegatee() == nil && validatedState(postA.State) {
			c.cnt("real_transitive_delegation_removed", 1)
		}
	}
	for _, id := range c.pre {
		if id.Delegatee() != nil {
			c.cnt("real_delegated_identities", 1)
		}
	}
	if c.shard == 0 && c.worldNo == 0 && (pl.Epoch >= 1 || c.pfx != "") {
		d := ""
		if ref != nil {
			d = ref.Dump
		}
		rep.Sample(map[string]interface{}{"world": c.describe(), "plan": pl.Describe(), "final_block": DescribeBlock(b), "transitions": trans,
			"canonical_epoch_result": verifutil.Trunc(d, 3000), "evaluations_first_pass": nFirst, "evaluations_cache_hit": nCached})
	}
}

// evidenceImplication: "an identity that missed the session is never promoted or left
// validated", for the way of missing that only the evidence decides. From the harness' own
// record of the evidence txs in blocks before the validation-finishing block (sender, the
// candidates of the sender's shard it confirmed): a candidate of shard s that fewer than a
// majority (more than half) of the evidence maps given by candidates of shard s confirm did
// not take part in the short session in the eyes of the network and must not be validated.
func (c *c17World) evidenceImplication(b *types.Block, st *state.StateDB) {
	pl := c.sim.Plan
	maps := map[common.ShardId][]common.Address{}
	for sender, m := range pl.InBlock {
		h, ok := m[types.EvidenceTx]
		if !ok || h >= b.Height() || pl.EvMarked[sender] == nil || pl.ShardOf[sender] == 0 {
			continue
		}
		maps[pl.ShardOf[sender]] = append(maps[pl.ShardOf[sender]], sender)
	}
	total := 0
	for sh := common.ShardId(1); sh <= common.ShardId(pl.NShards); sh++ {
		c.cnt(fmt.Sprintf("evidence_maps_on_chain_shard%d", sh), len(maps[sh]))
		c.cnt(fmt.Sprintf("ceremony_candidates_shard%d", sh), len(pl.CandsBy[sh]))
		if len(maps[sh]) == 0 {
			c.cnt("shards_without_evidence", 1)
		}
		total += len(maps[sh])
	}
	if pl.NShards >= 2 {
		c.cnt("epochs_with_two_shards", 1)
	}
	for _, a := range pl.Cands {
		sh := pl.ShardOf[a]
		n := len(maps[sh])
		if n == 0 {
			continue // no evidence at all in this shard: "a majority of the evidence" is empty talk
		}
		score := 0
		for _, sender := range maps[sh] {
			if pl.EvMarked[sender][a] {
				score++
			}
		}
		if 2*score > n {
			c.cnt("real_confirmed_by_evidence", 1)
			continue
		}
		c.cnt("real_unconfirmed_by_evidence", 1)
		inb := pl.InBlock[a]
		_, hasShort := inb[types.SubmitShortAnswersTx]
		_, hasLong := inb[types.SubmitLongAnswersTx]
		_, hasHash := inb[types.SubmitAnswersHashTx]
		if hasShort && hasLong && hasHash {
			c.cnt("real_unconfirmed_by_evidence_only", 1) // everything else is on chain: only the evidence says "missed"
		}
		// would the bits other shards' maps have at this list position make up a majority of ALL maps?
		if pl.NShards >= 2 {
			all := score
			for osh := common.ShardId(1); osh <= common.ShardId(pl.NShards); osh++ {
				if osh == sh || pl.CandIdx[a] >= len(pl.CandsBy[osh]) {
					continue
				}
				twin := pl.CandsBy[osh][pl.CandIdx[a]]
				for _, sender := range maps[osh] {
					if pl.EvMarked[sender][twin] {
						all++
					}
				}
			}
			if 2*all > total {
				c.cnt("unconfirmed_with_foreign_majority_at_same_index", 1)
				if hasShort && hasLong && hasHash {
					c.cnt("unconfirmed_only_by_evidence_with_foreign_majority", 1)
				}
			}
		}
		pre := c.pre[a]
		post := st.GetIdentity(a).State
		if validatedState(post) {
			c.rep.Violation("rule:real:evidence-minority-validated:"+stateNames[pre.State],
				fmt.Sprintf("epoch %d (block %d): identity %s (%s, candidate #%d of shard %d) is confirmed by %d of the %d evidence maps that candidates of shard %d have on chain (no majority), and is %s afterwards; short answers on chain=%v, long=%v, hash=%v; shards=%d, evidence maps of all shards=%d",
					pl.Epoch, b.Height(), fmtAddr(a), stateNames[pre.State], pl.CandIdx[a], sh, score, n, sh, stateNames[post], hasShort, hasLong, hasHash, pl.NShards, total),
				map[string]interface{}{"world": c.describe(), "plan": pl.Describe(), "address": a.Hex()})
		}
	}
}

// reorgEvidence counts what the minority-block history of this epoch exercised.
func (c *c17World) reorgEvidence(b *types.Block) {
	rp, pl := c.sim.Reorg, c.sim.Plan
	if rp == nil {
		c.cnt("epochs_without_answers_reorg_planned", 1)
		return
	}
	if !rp.Happened {
		c.cnt("answers_reorg_not_happened", 1)
		return
	}
	dropped, back := 0, 0
	for a, m := range rp.Reverted {
		for t := range m {
			h, on := pl.InBlock[a][t]
			on = on && h < b.Height() // an answers tx in the validation-finishing block itself is not input of this evaluation
			switch {
			case isAnswersTx(t) && on:
				back++
			case isAnswersTx(t):
				dropped++
			case t == types.EvidenceTx && on:
				c.cnt("evidence_txs_reverted_reincluded", 1)
			case t == types.EvidenceTx:
				c.cnt("evidence_txs_reverted_not_reincluded", 1)
			}
		}
	}
	c.cnt("answers_txs_reverted", dropped+back)
	c.cnt("answers_txs_reverted_not_reincluded", dropped)
	c.cnt("answers_txs_reverted_reincluded", back)
	c.cnt(fmt.Sprintf("answers_reorg_variant_%d", c.reorgVariant), 1)
	if dropped > 0 {
		c.cnt("epochs_with_dropped_answers", 1)
		c.cnt("replicas_restarted_after_dropping_reorg", len(c.restartedAfter))
		c.cnt("replicas_not_restarted_after_dropping_reorg", len(rp.Reorganised)-len(c.restartedAfter))
		for _, v := range rp.Victims {
			if validatedState(c.pre[v].State) || c.pre[v].State == state.Candidate {
				c.cnt("victims_whose_outcome_hangs_on_dropped_answers", 1)
			}
		}
	}
	if back > 0 {
		c.cnt("epochs_with_reincluded_answers", 1)
	}
}

func (c *c17World) describeReorg() interface{} {
	if c.sim == nil || c.sim.Reorg == nil {
		return nil
	}
	rp := c.sim.Reorg
	var t []string
	for _, r := range rp.Targets {
		t = append(t, r.Name)
	}
	var restarted []string
	for r := range c.restartedAfter {
		restarted = append(restarted, r.Name)
	}
	sort.Strings(restarted)
	return map[string]interface{}{"variant": c.reorgVariant, "targets": t, "kinds(1=long,2=short)": rp.Kinds, "victims": len(rp.Victims), "reverted_txs_return": rp.Returns,
		"happened": rp.Happened, "period": rp.Period, "minority_block": rp.MinorityHeight, "restarted_after_reorg": restarted}
}

func (c *c17World) lateRefusedName(name string) bool {
	if c.sim == nil || c.sim.Reorg == nil {
		return false
	}
	for r := range c.sim.Reorg.LateRefused {
		if r.Name == name {
			return true
		}
	}
	return false
}

// lateVerdict judges the "late" histories: a replica inserts a minority block in the last slot
// before the validation-finishing block and is cut off until the network has finished the
// validation. A peer answers its fork request with one block more than the replica's own
// branch has: the canonical block of that slot and the validation-finishing block. Same chain
// => same epoch result: the replica must get onto the canonical chain like everybody else,
// whatever it saw on its own branch.
func (c *c17World) lateVerdict(b *types.Block) {
	rp, pl := c.sim.Reorg, c.sim.Plan
	if rp == nil || !rp.Late || rp.LateAnswer == nil {
		return
	}
	fa := rp.LateAnswer
	c.cnt("late_partitions", 1)
	if !fa.HasFinal {
		// the validation needed more blocks: the fork answer ends below the validation-finishing block, which then arrived by ordinary sync
		c.cnt("late_partitions_fork_answer_without_validation_finishing_block", 1)
	}
	class := "same-ceremony-txs-on-both-branches"
	if rp.MinorityCeremonyTxs+fa.CeremonyTxs > 0 {
		class = "branches-differ-in-ceremony-txs"
	}
	if fa.HasFinal {
		c.cnt("late_partitions_"+class, 1)
	}
	c.cnt("late_fork_adopted", len(rp.Reorganised))
	history := fmt.Sprintf("epoch %d: in the last slot before the validation-finishing block a replica received and inserted block %d (proposed by a node, %d ceremony txs) that the rest of the network did not adopt, and was cut off. The network finished the validation with block %d, accepted by every connected replica. A peer on the canonical chain answers the replica's fork request (real ReadBlockForForkedPeer) with the %d certified blocks %d..%d (%d ceremony txs below the validation-finishing block)",
		pl.Epoch, rp.MinorityHeight, rp.MinorityCeremonyTxs, b.Height(), len(fa.Blocks), fa.Blocks[0].Height(), fa.Blocks[len(fa.Blocks)-1].Height(), fa.CeremonyTxs)
	cause := "Blockchain.ValidateSubChain evaluates the validation-finishing block through ValidationCeremony.ApplyNewEpoch with the ceremony data of the node's OWN branch (answers/evidence of reverted blocks are dropped only by ResetTo, those of the fork's blocks added only by AddBlock, both after the fork was validated)"
	rd := map[string]interface{}{"world": c.describe(), "plan": pl.Describe(), "final_block": DescribeBlock(b)}
	if len(c.lateDumpDiffs) > 0 {
		sig := "epoch-result-dump-differs:after-late-fork"
		if fa.HasFinal {
			// the fork was adopted because the state roots coincide, but the epoch result the node computed for it is not the network's
			sig = "epoch-result-differs:fork-with-validation-finishing-block:" + class
		}
		c.cnt("late_fork_adopted_with_different_epoch_result", 1)
		c.rep.Violation(sig, history+fmt.Sprintf(". The replica adopted them (the state roots coincide), but the TotalValidationResult its ceremony computed for block %d differs from the one every other replica computed: %v. %s", b.Height(), c.lateDumpDiffs, cause), rd)
	}
	for r, err := range rp.LateRefused {
		c.cnt("late_fork_refused", 1)
		again := "a restart of the replica (ceremony state rebuilt from its database) made it accept the fork"
		if e, ok := rp.LateRefusedAgain[r]; ok {
			again = fmt.Sprintf("after a restart of the replica the same answer is refused again (%v)", e)
			c.cnt("late_fork_refused_again_after_restart", 1)
		}
		if fa.HasFinal && strings.Contains(err.Error(), "invalid block roots") {
			c.rep.Violation("epoch-result-differs:fork-with-validation-finishing-block:"+class,
				history+fmt.Sprintf(". The real fork resolver of %s refuses them: %v; %s. %s", r.Name, err, again, cause), rd)
		} else {
			c.cnt("late_fork_refused_other_reason", 1)
			c.sim.forkRefused(r, fa, err)
		}
		// the operator's way out: wipe the node and synchronise from genesis
		if e := c.sim.Resync(r); e != nil {
			c.rep.Note("resync of %s from genesis failed: %v", r.Name, e)
			c.cnt("late_resync_failed", 1)
		} else if r.Head().Hash() != c.w.View().Head().Hash() || DigestState(r.AppState) != DigestState(c.w.View().AppState) {
			c.rep.Violation("post-epoch-state-differs:clean-sync-after-late-fork", fmt.Sprintf("%s, wiped and synchronised block by block from genesis, does not reach the canonical head state", r.Name), c.describe())
		} else {
			c.cnt("late_resynced_from_genesis", 1)
		}
	}
}

func firstDumpDiff(a, b string) string {
	// name the first differing top-level section of two canonical dumps
	for _, key := range []string{"IdentitiesCount", "Failed", "Pools", "NonValidated", "BadAuthors", "GoodAuthors", "AuthorRes", "GoodInviters", "Reporters"} {
		ia, ib := strings.Index(a, `"`+key+`"`), strings.Index(b, `"`+key+`"`)
		if ia < 0 || ib < 0 {
			continue
		}
		ea, eb := sectionEnd(a, ia), sectionEnd(b, ib)
		if a[ia:ea] != b[ib:eb] {
			return key
		}
	}
	return "other"
}

func sectionEnd(s string, from int) int {
	depth := 0
	for i := from; i < len(s); i++ {
		switch s[i] {
		case '[', '{':
			depth++
		case ']', '}':
			if depth == 0 {
				return i
			}
			depth--
		case ',':
			if depth == 0 {
				return i
			}
		}
	}
	return len(s)
}

func c17Version(shard int) config.ConsensusVerson {
	if v := os.Getenv("VERIF_C17_VERSION"); v != "" {
		var n int
		fmt.Sscan(v, &n)
		return config.ConsensusVerson(n)
	}
	// validation.SetAppConfig is process-global: one consensus version per child process
	switch shard % 8 {
	case 3:
		return config.ConsensusV11
	case 7:
		return config.ConsensusV10
	}
	return config.ConsensusV12
}

// c17Job parametrises the world loop for the two jobs of part (b).
type c17Job struct {
	stream     uint64 // PRNG stream of the job
	pfx        string // counter prefix
	nWorlds    int
	nEpochs    int
	K          int
	twoShards  bool // genesis with two shards (the ceremony of the first epoch runs in two shards; it merges them again)
	identRange [2]int
}

// c17ReorgVariants: who sees the minority block, what is withheld, when the reorganised replica is
// restarted (-1 never, 0 right after the fork switch, k after k further blocks).
var c17ReorgVariants = []struct {
	targets []string // "a", "b" = the two restarters, "blind" = the follower re-created at the final block, "node" = proposing node Replicas[3]
	restart map[string]int
	kinds   int
	phase   string
	returns bool
	late    bool
}{
	{[]string{"a"}, map[string]int{"a": 0}, ReorgLong, "long", false, false},
	{[]string{"a", "blind"}, map[string]int{}, ReorgLong | ReorgShort, "afterlong", false, false},
	{[]string{"b"}, map[string]int{"b": 1}, ReorgShort, "long", false, false},
	{[]string{"a", "node"}, map[string]int{"a": 0}, ReorgLong, "long", true, false},
	{[]string{"b", "node"}, map[string]int{"b": 2}, ReorgLong | ReorgShort, "afterlong", true, false},
	{[]string{"a", "b", "blind"}, map[string]int{"a": 0}, ReorgLong, "afterlong", false, false},
	{[]string{"b"}, map[string]int{}, ReorgLong, "afterlong", false, true},
	{[]string{"a"}, map[string]int{}, 0, "afterlong", false, true}, // control: the minority block carries only a plain payment
}

// c17TwoShards is the genesis of a network that already has two shards: god and node 0 live in
// shard 1, node 1 in shard 2, node 2 and the other identities are spread by the world seed so
// that shard `small` gets about num/den of them.
func c17TwoShards(small common.ShardId, num, den int) func(w *World, st *state.StateDB) {
	return func(w *World, st *state.StateDB) {
		r := verifutil.NewRng(w.Opt.Seed, 0x5ad)
		sizes := map[common.ShardId]uint32{}
		put := func(a *Actor, sh common.ShardId) {
			if !state.IdentityState(w.Alloc[a.Addr].State).IsInShard() {
				return
			}
			st.SetShardId(a.Addr, sh)
			sizes[sh]++
		}
		pick := func() common.ShardId {
			if r.Intn(den) < num {
				return small
			}
			return 3 - small
		}
		st.SetShardsNum(2)
		put(w.God, 1)
		for i, n := range w.Nodes {
			switch i {
			case 0:
				put(n, 1)
			case 1:
				put(n, 2)
			default:
				put(n, pick())
			}
		}
		for _, a := range w.Idents {
			put(a, pick())
		}
		st.SetShardSize(1, sizes[1])
		st.SetShardSize(2, sizes[2])
	}
}

func TestVerifC17Real(t *testing.T) {
	if !verifutil.Enabled() {
		t.Skip("verif harness")
	}
	rep := verifutil.NewReport()
	defer rep.Write()
	orders := map[string]bool{}
	c17RunWorlds(t, rep, orders, c17Job{stream: 17, nWorlds: verifutil.Scale(2, 12), nEpochs: verifutil.Scale(3, 4), K: verifutil.Scale(3, 6), identRange: [2]int{9, 24}})
	rep.Count("distinct_map_orders_witnessed", len(orders))
}

// TestVerifC17Shards: the same differential worlds, started from a genesis with TWO shards, one
// epoch each (the validation-finishing block merges the shards of so small a network again).
func TestVerifC17Shards(t *testing.T) {
	if !verifutil.Enabled() {
		t.Skip("verif harness")
	}
	rep := verifutil.NewReport()
	defer rep.Write()
	orders := map[string]bool{}
	c17RunWorlds(t, rep, orders, c17Job{stream: 1702, pfx: "ms_", nWorlds: verifutil.Scale(5, 14), nEpochs: 1, K: verifutil.Scale(2, 4), twoShards: true, identRange: [2]int{18, 32}})
	rep.Count("ms_distinct_map_orders_witnessed", len(orders))
}

func c17RunWorlds(t *testing.T, rep *verifutil.Report, orders map[string]bool, job c17Job) {
	shard := verifutil.Shard()
	nWorlds, nEpochs, K := job.nWorlds, job.nEpochs, job.K
	for wn := 0; wn < nWorlds; wn++ {
		rng := verifutil.Stream(job.stream, uint64(wn))
		seed := rng.U64()>>16 | 1
		o := Options{Seed: seed, Version: c17Version(shard), NNodes: 3, NIdent: rng.Range(job.identRange[0], job.identRange[1]), NAccounts: 2, Epoch: EpochReal,
			ValidationInterval: 35 * time.Minute, FirstCeremonyIn: 30 * time.Minute, GodIsIdentity: (shard+wn)%6 != 5, DelegationSwitchRange: 4}
		if job.twoShards {
			// the smaller shard alternates and gets about 1/4, 1/3 or 1/2 of the identities
			den := []int{4, 3, 2, 4}[(shard+wn)%4]
			o.GenesisTweak = c17TwoShards(common.ShardId(1+(shard/2+wn)%2), 1, den)
		}
		// node owners must be able to stay validated for several epochs: a genesis Verified
		// identity has no score history and is killed by the first ceremony that has flips
		// (fewer than 13 qualified flips), so worlds whose node identities are all Human are
		// used (the genesis states are drawn from the world seed)
		var w *World
		for try := 0; ; try++ {
			w = NewWorld(o)
			ok := true
			for _, n := range w.Nodes {
				ok = ok && state.IdentityState(w.Alloc[n.Addr].State) == state.Human
			}
			if ok || try > 200 {
				break
			}
			w.Cleanup()
			o.Seed += 2
		}
		seed = o.Seed
		c := &c17World{w: w, rep: rep, variant: map[*Replica]string{}, rsPhase: map[*Replica]string{}, K: K, orders: orders, shard: shard, worldNo: wn, pfx: job.pfx}
		c.variant[w.Replicas[0]] = "sees-all"
		mk := func(owner *Actor, name, variant string) *Replica {
			r := w.NewReplica(owner, dbm.NewMemDB())
			r.Name, r.Observer = name, true
			c.variant[r] = variant
			return r
		}
		c.restarters = []*Replica{mk(w.God, "restart-a", "restart"), mk(w.God, "restart-b", "restart")}
		c.fresh = mk(w.God, "blind", "blind") // no mempool traffic at all; re-created K times at the final block ("fresh")
		c.rival = mk(w.God, "rival", "rival")
		c.alt = mk(w.Nodes[0], "alt", "alt")
		minority := mk(w.Nodes[1], "minority", "minority") // proposes the minority blocks of the answers-reorg histories, never inserts them
		sim := NewCeremonySim(w, rng.Fork(1), rep)
		sim.CountPrefix = job.pfx
		c.sim = sim
		sim.Debug = os.Getenv("VERIF_C17_DEBUG") != ""
		if sim.Debug {
			log.Root().SetHandler(log.FuncHandler(func(r *log.Record) error {
				if r.Msg == "Tx is invalid" || r.Msg == "Tx removed by nonce" {
					rep.Count(fmt.Sprintf("dbg_pool_%s_%v", r.Msg, ErrClass(fmt.Errorf("%v", r.Ctx[len(r.Ctx)-1]))), 1)
				}
				return nil
			}))
		}
		for _, r := range c.restarters {
			sim.Profiles[r] = &NetProfile{LossPct: 15, MaxDelay: 3}
		}
		sim.Profiles[w.Replicas[2]] = &NetProfile{LossPct: 25, MaxDelay: 3} // one node with a poor connection
		if err := w.Prologue(); err != nil {
			t.Fatal(err)
		}
		if job.twoShards {
			if n := w.View().AppState.State.ShardsNum(); n != 2 {
				t.Fatalf("two-shard genesis: the state has %d shards", n)
			}
			sim.PlantUnseen = 2
			if (shard+wn)%3 != 2 {
				sim.EvidenceDiscipline = 60
			}
		}
		restart := func(r *Replica, phase string) bool {
			if err := r.Restart(); err != nil {
				rep.Violation("restart-failed:"+phase, fmt.Sprintf("clean restart of a follower in phase %s failed: %v", phase, err), nil)
				return false
			}
			return true
		}
		restartAfterReorg := func(r *Replica) {
			if restart(r, "after-answers-reorg") {
				c.restartedAfter[r] = true
				c.cnt("restart_after_answers_reorg", 1)
			}
		}
		sim.OnRefused = func(res *BlockResult) {
			b := res.Block
			for n, e := range res.Errs {
				var rr *Replica
				for _, r := range w.Replicas {
					if r.Name == n {
						rr = r
					}
				}
				v := "node"
				if rr != nil {
					v = c.variantOf(rr, res.Proposer)
				}
				if b.Header.Flags().HasFlag(types.ValidationFinished) && (c.nondet || c.chainLive) {
					// already reported as order dependence of the epoch result: this refusal is a consequence
					c.cnt("refusals_following_order_dependence", 1)
				} else if b.Header.Flags().HasFlag(types.ValidationFinished) {
					detail := ""
					if (v == "alt" || v == "rival") && c.altNote != "" {
						detail = " (the node had validated a competing proposal for the same height before: " + c.altNote + ")"
						v += "-after-competing-proposal"
					}
					rep.Violation("epoch-result-differs:"+v+":receive:"+ErrClass(e),
						fmt.Sprintf("validation-finishing block %d of epoch %d is refused by %s (%s)%s: %v", b.Height(), sim.Plan.Epoch, n, v, detail, e),
						map[string]interface{}{"block": DescribeBlock(b), "plan": sim.Plan.Describe(), "world": c.describe()})
				} else {
					rep.Violation("block-refused-in-real-epoch:"+v+":"+BlockKind(b)+":"+ErrClass(e),
						fmt.Sprintf("block %d (%s) is refused by %s (%s): %v", b.Height(), BlockKind(b), n, v, e),
						map[string]interface{}{"block": DescribeBlock(b), "world": c.describe()})
				}
			}
		}
		sim.OnPhase = func(phase string) {
			for _, r := range c.restarters {
				if sim.Reorg != nil && sim.Reorg.CutOff[r] {
					continue // away on a minority branch
				}
				if c.rsPhase[r] == phase {
					if !restart(r, phase) {
						continue
					}
					c.cnt("restart_at_"+phase, 1)
					if c.reorged[r] {
						c.restartedAfter[r] = true
						c.cnt("restart_after_answers_reorg", 1)
					}
				}
			}
			// in every third epoch one of the PROPOSING nodes is restarted too: it may well be the one
			// that builds the validation-finishing block from its restored ceremony state
			if c.nodeRestartPhase == phase {
				r := w.Replicas[3]
				if err := r.Restart(); err != nil {
					rep.Violation("restart-failed:"+phase, fmt.Sprintf("clean restart of a proposing node in phase %s failed: %v", phase, err), nil)
				} else {
					c.cnt("restart_of_proposing_node", 1)
					c.nodeRestarted = r
					if c.reorged[r] {
						c.restartedAfter[r] = true
						c.cnt("restart_after_answers_reorg", 1)
					}
				}
			}
		}
		sim.OnReorged = func(rp *ReorgPlan) {
			v := c17ReorgVariants[c.reorgVariant]
			byName := map[*Replica]string{c.restarters[0]: "a", c.restarters[1]: "b", c.fresh: "blind", w.Replicas[3]: "node"}
			for _, r := range rp.Reorganised {
				c.reorged[r] = true
				if r.Restarts > c.restartsBefore[r] {
					c.cnt("replicas_restarted_before_answers_reorg", 1) // restarted in an earlier phase of this epoch
				}
				if k, ok := v.restart[byName[r]]; ok {
					if k == 0 {
						restartAfterReorg(r)
					} else {
						c.pendingRestart[r] = k
					}
				}
			}
		}
		sim.OnStep = func(res *BlockResult) {
			for r, k := range c.pendingRestart {
				if k--; k > 0 {
					c.pendingRestart[r] = k
					continue
				}
				delete(c.pendingRestart, r)
				if r.Alive && !res.Block.Header.Flags().HasFlag(types.ValidationFinished) {
					restartAfterReorg(r)
				}
			}
		}
		sim.BeforeFinal = func() bool {
			c.snapshotPre()
			if !c.zeroFlipCeremony() {
				return false
			}
			if os.Getenv("VERIF_C17_NOALT") == "" {
				c.competingProposal()
			}
			return true
		}
		w.beforeDistribute = func(b *types.Block, p *Replica) {
			if b.Header.Flags().HasFlag(types.ValidationFinished) {
				c.finalBlock(b, p)
			}
		}
		epochsHere := nEpochs
		if verifutil.Thorough() && wn == 0 && o.Version != config.ConsensusV12 && !job.twoShards {
			// before upgrade 12 the cached "participated" bit decides the stake handling of a killed
			// Suspended/Zombie identity of age >= 5: needs a long-lived world (competing proposals, suspect i)
			epochsHere = 8
		}
		for e := 0; e < epochsHere && !sim.Stopped; e++ {
			rep.Progress("C17 %sworld %d seed %d epoch %d", job.pfx, wn, seed, e)
			for i, r := range c.restarters {
				c.rsPhase[r] = c17Phases[(shard+wn+e+2*i)%4]
			}
			// transitive delegation shapes: A->P->Q in about half of the epochs; the 3-link chain
			// A->P->Q->R (whose outcome turned out to depend on map order, see spec) only in the
			// last epoch of every second shard's world, because the world rarely survives it
			sim.ChainLinks = 0
			if e == epochsHere-1 && (shard+wn)%2 == 0 && !job.twoShards {
				sim.ChainLinks = 3
			} else if rng.Intn(2) == 0 {
				sim.ChainLinks = 2
			}
			if os.Getenv("VERIF_C17_NOCHAIN") != "" && sim.ChainLinks == 3 {
				sim.ChainLinks = 2
			}
			c.pre, c.nondet, c.chainLive = nil, false, false
			c.nodeRestartPhase, c.nodeRestarted = "", nil
			if (shard+wn+e)%3 == 0 {
				c.nodeRestartPhase = c17Phases[(shard+wn+2*e)%4]
			}
			// minority-block history of this epoch: 8 of 10 (process shard, world, epoch) residues select one of
			// the variants of c17ReorgVariants, 2 of 10 none
			c.reorged, c.restartedAfter, c.pendingRestart = map[*Replica]bool{}, map[*Replica]bool{}, map[*Replica]int{}
			c.restartsBefore = map[*Replica]int{}
			for _, r := range w.Replicas {
				c.restartsBefore[r] = r.Restarts
			}
			sim.Reorg = nil
			sel := (shard*7 + wn*3 + e) % 10
			if v := os.Getenv("VERIF_C17_REORGVARIANT"); v != "" {
				fmt.Sscan(v, &sel)
			}
			if sel < len(c17ReorgVariants) && os.Getenv("VERIF_C17_NOREORG") == "" && !(c17ReorgVariants[sel].late && os.Getenv("VERIF_C17_NOLATE") != "") {
				v := c17ReorgVariants[sel]
				c.reorgVariant = sel
				byName := map[string]*Replica{"a": c.restarters[0], "b": c.restarters[1], "blind": c.fresh, "node": w.Replicas[3]}
				rp := &ReorgPlan{Phase: v.phase, Kinds: v.kinds, NVictims: 1 + (shard+wn+e)%2, Proposer: minority, Returns: v.returns, Late: v.late}
				for _, n := range v.targets {
					rp.Targets = append(rp.Targets, byName[n])
				}
				if v.returns {
					rp.ReturnNode = w.Replicas[3]
				}
				for _, k := range v.restart {
					rp.RestartDelay = maxInt(rp.RestartDelay, k)
				}
				sim.Reorg = rp
			}
			b := sim.RunEpoch()
			if sim.Plan != nil && len(sim.Plan.Chain3) == 4 {
				c.cnt("real_transitive_chain3_epochs", 1)
			}
			if b == nil {
				if !sim.Stopped {
					rep.Note("%sworld %d epoch %d did not finish", job.pfx, wn, e)
					c.cnt("real_epochs_unfinished", 1)
				}
				break
			}
			if c.pre == nil {
				rep.Note("final block without pre-state snapshot")
				continue
			}
			if b.IsEmpty() {
				c.cnt("real_final_block_empty", 1)
			}
			c.afterFinal(b)
			c.lateVerdict(b)
			for cls, n := range sim.Plan.Describe()["behaviours"].(map[string]int) {
				c.cnt("behaviour_"+cls, n)
			}
			if job.twoShards && e == 0 {
				c.cnt(fmt.Sprintf("shards_after_first_validation_%d", w.View().AppState.State.ShardsNum()), 1)
			}
		}
		for k, v := range sim.Included {
			c.cnt("included_"+k, v)
		}
		w.DropEpochEvals()
		w.Cleanup()
	}
}
