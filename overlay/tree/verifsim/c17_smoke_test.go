package verifsim

import (
	"fmt"
	"testing"
	"time"

	"github.com/idena-network/idena-go/blockchain/types"
	"github.com/idena-network/idena-go/core/state"
	"github.com/idena-network/idena-go/verifutil"
)

func TestVerifC17Smoke(t *testing.T) {
	if !verifutil.Enabled() {
		t.Skip("verif harness")
	}
	rep := verifutil.NewReport()
	defer rep.Write()
	w := NewWorld(Options{Seed: 7, NNodes: 3, NIdent: 10, NAccounts: 2, Epoch: EpochReal, ValidationInterval: 30 * time.Minute, GodIsIdentity: true})
	if err := w.Prologue(); err != nil {
		t.Fatal(err)
	}
	t0 := time.Now()
	for i := 0; i < 400; i++ {
		st := w.View().AppState.State
		if st.ValidationPeriod() == state.NonePeriod && st.NextValidationTime().Sub(w.Now()) > 5*time.Minute {
			setClock(st.NextValidationTime().Add(-3 * time.Minute))
		}
		w.Tick(20 * time.Second)
		res := w.NextBlock(0)
		for n, e := range res.Errs {
			t.Fatalf("block %d refused by %s: %v", res.Block.Height(), n, e)
		}
		if res.Block.Header.Flags() != 0 {
			fmt.Printf("h=%d %s period=%d epoch=%d\n", res.Block.Height(), BlockKind(res.Block), w.View().AppState.State.ValidationPeriod(), w.View().AppState.State.Epoch())
		}
		if res.Block.Header.Flags().HasFlag(types.FlipLotteryStarted) {
			for _, r := range w.Replicas {
				if !r.Real().WaitLottery(5 * time.Second) {
					t.Fatal("lottery not finished")
				}
			}
			vc := w.View().Real().VC
			fmt.Printf("candidates=%d non=%d flips=%d\n", len(vc.VerifCandidates(1)), len(vc.VerifNonCandidates(1)), len(vc.VerifFlips(1)))
		}
		if w.View().AppState.State.Epoch() >= 2 {
			break
		}
	}
	fmt.Printf("elapsed %v evals=%d\n", time.Since(t0), len(w.EpochEvals()))
	for _, e := range w.EpochEvals() {
		fmt.Printf("%+v\n", *e)
	}
	rep.Eval(1)
}
