package verifsim

import (
	"encoding/binary"
	"math/big"
	"sort"

	"github.com/idena-network/idena-go/blockchain/types"
	"github.com/idena-network/idena-go/common"
	"github.com/idena-network/idena-go/core/appstate"
	"github.com/idena-network/idena-go/core/ceremony"
	"github.com/idena-network/idena-go/core/state"
	"github.com/idena-network/idena-go/crypto"
	"github.com/idena-network/idena-go/stats/collector"
	"github.com/shopspring/decimal"
)

// EpochDriver connects a replica to the code that computes epoch results. In synthetic mode
// it installs a deterministic pure function of (height, state contents, world seed) that
// returns an ARBITRARY but well-formed TotalValidationResult and applies per-identity
// outcomes through the real ceremony.applyOnState; the blockchain-side epoch code (identity
// attributes, rewards, shard balancing, invites, discrimination, dust clearing) is thereby
// driven with arbitrary validation results. In real mode (ceremony.go of this package) the
// real ValidationCeremony is wired.
type EpochDriver struct {
	r    *Replica
	real *realCeremony
}

func newEpochDriver(r *Replica) *EpochDriver {
	d := &EpochDriver{r: r}
	if r.W.Opt.Epoch == EpochReal {
		d.real = newRealCeremony(r)
	} else {
		r.Chain.ProvideApplyNewEpochFunc(d.synth)
	}
	return d
}

func (d *EpochDriver) initialize() {
	if d.real != nil {
		d.real.initialize()
	}
}

func h64(seed uint64, height uint64, addr common.Address, tag byte) uint64 {
	b := make([]byte, 8+8+20+1)
	binary.LittleEndian.PutUint64(b, seed)
	binary.LittleEndian.PutUint64(b[8:], height)
	copy(b[16:], addr[:])
	b[36] = tag
	return binary.LittleEndian.Uint64(crypto.Keccak256(b)[:8])
}

// synthetic outcome table: prior status -> possible new statuses (weights by repetition)
var synthNext = map[state.IdentityState][]state.IdentityState{
	state.Invite:    {state.Killed},
	state.Candidate: {state.Newbie, state.Newbie, state.Killed},
	state.Newbie:    {state.Newbie, state.Verified, state.Verified, state.Killed},
	state.Verified:  {state.Verified, state.Verified, state.Verified, state.Human, state.Suspended, state.Killed},
	state.Human:     {state.Human, state.Human, state.Human, state.Suspended, state.Killed},
	state.Suspended: {state.Verified, state.Zombie, state.Killed, state.Verified},
	state.Zombie:    {state.Verified, state.Killed},
}

func (d *EpochDriver) synth(height uint64, as *appstate.AppState, sc collector.StatsCollector) types.TotalValidationResult {
	w := d.r.W
	seed := w.Opt.Seed
	st := as.State
	epoch := st.Epoch()

	type ent struct {
		addr common.Address
		id   state.Identity
	}
	var ids []ent
	st.IterateOverIdentities(func(addr common.Address, _ state.Identity) {
		ids = append(ids, ent{addr: addr})
	})
	for i := range ids {
		ids[i].id = st.GetIdentity(ids[i].addr) // live view incl. this block's transactions
	}
	sort.Slice(ids, func(i, j int) bool { return string(ids[i].addr[:]) < string(ids[j].addr[:]) })

	shards := st.ShardsNum()
	res := map[common.ShardId]*types.ValidationResults{}
	for s := uint32(1); s <= shards; s++ {
		res[common.ShardId(s)] = &types.ValidationResults{
			BadAuthors:              map[common.Address]types.BadAuthorReason{},
			GoodAuthors:             map[common.Address]*types.ValidationResult{},
			AuthorResults:           map[common.Address]*types.AuthorResults{},
			GoodInviters:            map[common.Address]*types.InviterValidationResult{},
			ReportersToRewardByFlip: map[int]map[common.Address]*types.Candidate{},
		}
	}
	shardOf := func(id state.Identity) *types.ValidationResults {
		s := id.ShiftedShardId()
		if r, ok := res[s]; ok {
			return r
		}
		return res[common.ShardId(1)]
	}

	// whole-epoch failure (nobody validated) with probability 1/12
	failed := h64(seed, height, common.Address{}, 'F')%12 == 0
	pools := map[common.Address]struct{}{}
	nonValidated := map[common.Address]*big.Int{}
	if failed {
		return types.TotalValidationResult{IdentitiesCount: as.ValidatorsCache.NetworkSize(), ShardResults: res, Pools: pools,
			NonValidatedStakes: nonValidated, Failed: true}
	}

	newStates := map[common.Address]state.IdentityState{}
	count := 0
	flipNo := 0
	// node identities (they own the proposing replicas) always pass, so that proposed blocks
	// keep coming; the set is part of the world configuration every replica shares
	isNode := map[common.Address]bool{}
	for _, n := range w.Nodes {
		isNode[n.Addr] = true
	}
	pickNext := func(e ent) (state.IdentityState, uint64, bool) {
		opts, ok := synthNext[e.id.State]
		if !ok {
			return 0, 0, false
		}
		hv := h64(seed, height, e.addr, 'S')
		ns := opts[hv%uint64(len(opts))]
		if w.Opt.EpochNoKills && !ns.NewbieOrBetter() && e.id.State != state.Invite && !(w.Opt.EpochSuspends && (ns == state.Suspended || ns == state.Zombie)) {
			// gentle epochs: nobody loses the status, so that no stake is burnt and the issued
			// amount is visible undiluted in the ledger delta
			ns = opts[0]
			if !ns.NewbieOrBetter() {
				ns = state.Verified
			}
		}
		if isNode[e.addr] && !ns.NewbieOrBetter() {
			ns = state.Verified
			if e.id.State == state.Human {
				ns = state.Human
			}
		}
		return ns, hv, true
	}
	// plan first: like the real ceremony, an epoch in which nobody would be validated is a
	// failed validation and must not touch the state
	planned := 0
	for _, e := range ids {
		if ns, _, ok := pickNext(e); ok && ns.NewbieOrBetter() {
			planned++
		}
	}
	if planned == 0 {
		return types.TotalValidationResult{IdentitiesCount: as.ValidatorsCache.NetworkSize(), ShardResults: res, Pools: pools,
			NonValidatedStakes: nonValidated, Failed: true}
	}
	for _, e := range ids {
		ns, hv, ok := pickNext(e)
		if !ok {
			continue // Undefined, Killed: never come back through validation
		}
		missed := !ns.NewbieOrBetter() && hv%3 == 0
		newStates[e.addr] = ns
		val := ceremony.VerifEpochValue{
			State: ns, PrevState: e.id.State,
			ShortQualifiedFlipsCount: uint32(hv>>8) % 7, ShortFlipPoint: float32((hv>>16)%13) / 2,
			Birthday:     ceremony.VerifDetermineIdentityBirthday(epoch, e.id, ns),
			Missed:       missed,
			Participated: hv%5 != 0,
			Delegatee:    e.id.Delegatee(),
		}
		if val.ShortFlipPoint > float32(val.ShortQualifiedFlipsCount) {
			val.ShortFlipPoint = float32(val.ShortQualifiedFlipsCount)
		}
		validated, pool, nvs := ceremony.VerifApplyOnState(w.Cons, as, epoch, sc, e.addr, val)
		if validated {
			count++
		}
		if pool != nil {
			pools[*pool] = struct{}{}
		}
		if nvs != nil {
			nonValidated[e.addr] = nvs
		}
		sr := shardOf(e.id)
		// authors
		if len(e.id.Flips) > 0 {
			switch hv % 7 {
			case 0:
				sr.BadAuthors[e.addr] = types.BadAuthorReason(hv >> 24 % 3)
				sr.AuthorResults[e.addr] = &types.AuthorResults{HasOneReportedFlip: true, AllFlipsNotQualified: hv%2 == 0}
			default:
				vr := &types.ValidationResult{Missed: missed, NewIdentityState: uint8(ns)}
				for fi, f := range e.id.Flips {
					g := types.Grade(2 + (hv>>uint(4*fi))%4) // D..A
					vr.FlipsToReward = append(vr.FlipsToReward, &types.FlipToReward{Cid: f.Cid, Grade: g,
						GradeScore: decimal.NewFromFloat(float64(1 + (hv>>uint(3*fi))%9)).Div(decimal.NewFromInt(2))})
				}
				sr.GoodAuthors[e.addr] = vr
				sr.AuthorResults[e.addr] = &types.AuthorResults{HasOneNotQualifiedFlip: hv%11 == 0}
			}
		}
		// reporters
		if ns.NewbieOrBetter() && hv%4 == 0 {
			m := sr.ReportersToRewardByFlip[flipNo%5]
			if m == nil {
				m = map[common.Address]*types.Candidate{}
				sr.ReportersToRewardByFlip[flipNo%5] = m
			}
			m[e.addr] = &types.Candidate{Address: e.addr, NewIdentityState: uint8(ns)}
			flipNo++
		}
	}
	// inviters (after all new states are known)
	for _, e := range ids {
		ns, ok := newStates[e.addr]
		if !ok || e.id.Inviter == nil || ns != state.Newbie && ns != state.Verified {
			continue
		}
		birthday := ceremony.VerifDetermineIdentityBirthday(epoch, e.id, ns)
		age := epoch - birthday + 1
		if age > 3 {
			continue
		}
		inv := e.id.Inviter.Address
		invId := st.GetIdentity(inv)
		sr := shardOf(invId)
		if _, bad := sr.BadAuthors[inv]; bad {
			continue
		}
		gi := sr.GoodInviters[inv]
		if gi == nil {
			invNs, has := newStates[inv]
			if !has {
				invNs = invId.State
			}
			gi = &types.InviterValidationResult{NewIdentityState: uint8(invNs), PayInvitationReward: invNs.NewbieOrBetter() || inv == st.GodAddress()}
			sr.GoodInviters[inv] = gi
		}
		_, pen := shardOf(e.id).BadAuthors[e.addr]
		gi.SuccessfulInvites = append(gi.SuccessfulInvites, &types.SuccessfulInvite{Age: age, TxHash: e.id.Inviter.TxHash,
			EpochHeight: e.id.Inviter.EpochHeight, Address: e.addr, Penalized: pen})
	}
	// make sure every reward category has recipients in most epochs (the chain code only sees the
	// result structures, and the results are arbitrary by the quantifier): invitation results
	// for the first validated identities even where the ledger has no inviter link
	var validatedList []common.Address
	for _, e := range ids {
		if ns, ok := newStates[e.addr]; ok && ns.NewbieOrBetter() {
			validatedList = append(validatedList, e.addr)
		}
	}
	if len(validatedList) >= 2 && h64(seed, height, common.Address{}, 'I')%4 != 0 {
		sr := res[common.ShardId(1)]
		// an author with more than three rewarded flips (basic + extra flip funds) and a reporter
		au := validatedList[len(validatedList)-1]
		if _, bad := sr.BadAuthors[au]; !bad {
			vr := &types.ValidationResult{NewIdentityState: uint8(newStates[au])}
			for fi := 0; fi < 5; fi++ {
				vr.FlipsToReward = append(vr.FlipsToReward, &types.FlipToReward{Cid: []byte{byte(fi), 1, 2}, Grade: types.GradeA, GradeScore: decimal.NewFromInt(int64(2 + fi))})
			}
			sr.GoodAuthors[au] = vr
			if sr.AuthorResults[au] == nil {
				sr.AuthorResults[au] = &types.AuthorResults{}
			}
		}
		if len(sr.ReportersToRewardByFlip) == 0 {
			rp := validatedList[len(validatedList)/2]
			sr.ReportersToRewardByFlip[0] = map[common.Address]*types.Candidate{rp: {Address: rp, NewIdentityState: uint8(newStates[rp])}}
		}
		inv := validatedList[0]
		if _, bad := sr.BadAuthors[inv]; !bad {
			gi := sr.GoodInviters[inv]
			if gi == nil {
				gi = &types.InviterValidationResult{NewIdentityState: uint8(newStates[inv]), PayInvitationReward: true}
				sr.GoodInviters[inv] = gi
			}
			gi.PayInvitationReward = true
			for k := 1; k < len(validatedList) && k <= 3; k++ {
				gi.SuccessfulInvites = append(gi.SuccessfulInvites, &types.SuccessfulInvite{Age: uint16(k), Address: validatedList[k], EpochHeight: uint32(k * 7)})
			}
		}
	}
	return types.TotalValidationResult{IdentitiesCount: count, ShardResults: res, Pools: pools, NonValidatedStakes: nonValidated, Failed: false}
}
