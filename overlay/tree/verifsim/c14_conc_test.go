package verifsim

// C14, CONCURRENT part (engine E4, built with -race). The goroutine topology mirrors the node:
//
//   - ONE engine goroutine owns the chain and the simulator: it builds the candidate list,
//     proposes / receives blocks (AddBlock calls pool.ResetTo), occasionally runs the chain's
//     StartSync / StopSync, moves the virtual clock and refreshes the shared tx corpus;
//   - 4-12 submitter goroutines only call pool methods: the gossip path (mempool.AsyncTxPool and
//     batched AddExternalTxs), the RPC path (single AddExternalTxs / Validate), own txs
//     (AddInternalTx) and the read API (GetTx, GetPendingByAddress, GetPendingTransaction,
//     GetPriorityTransaction, Has/Get of the push-pull holder). Few senders, small windows of
//     nonces, the same hashes submitted by several goroutines: contention is high. The delay
//     point between Readonly(...) and add in AddExternalTxs is armed with a yield.
//
// Oracles: race detector reports (collected by the driver), no panic, a progress watchdog
// (stall -> goroutine dump, one retry, reproduced -> `deadlock`), candidate-list invariants
// evaluated by the engine right after each build against an engine-owned read-only view, the
// membership invariants at quiescence after a final ResetTo(head), and a porcupine
// linearizability check of per-hash histories recorded at the API boundary with one
// monotonic counter (removals come from the official StatsCollector.RemoveMemPoolTx hook).

import (
	"fmt"
	"math/big"
	"os"
	"runtime"
	"runtime/debug"
	"sort"
	"strings"
	"sync"
	"sync/atomic"
	"testing"
	"time"

	"github.com/anishathalye/porcupine"
	"github.com/idena-network/idena-go/blockchain/types"
	"github.com/idena-network/idena-go/blockchain/validation"
	"github.com/idena-network/idena-go/common"
	"github.com/idena-network/idena-go/config"
	"github.com/idena-network/idena-go/core/mempool"
	"github.com/idena-network/idena-go/core/state"
	"github.com/idena-network/idena-go/stats/collector"
	"github.com/idena-network/idena-go/verifclock"
	"github.com/idena-network/idena-go/verifutil"
)

// ------------------------------------------------------------------ history + model

const (
	c14AddDet   = 'A' // single add with a returned verdict
	c14AddMaybe = 'M' // add whose outcome / moment is unknown (gossip queue, batch, sync window)
	c14Get      = 'G'
	c14Rm       = 'R' // removal reported by the stats hook
	c14Open     = 'O' // from here on a background adder may insert the tx (see c14Model)
	c14Final    = 'F' // checker-internal sentinel
)

type c14Rec struct {
	hash   common.Hash
	kind   byte
	out    string // A: ok|dup|rej  G: t|f
	call   int64
	ret    int64
	client int
	path   string
}

type c14In struct{ kind byte }

// Model state: bit 1 = "absent possible", bit 2 = "present possible", bit 4 = "a background
// adder is active". Adds whose moment of effect cannot be bounded from the API boundary (txs
// queued in the AsyncTxPool, txs the pool deferred during a sync window: they are processed
// by another goroutine / by a later StopSync) are folded into ONE zero-width 'O' operation
// at the first such call: from then on the tx may become present spontaneously, any number
// of times (a sound over-approximation of those adds).
func c14Model(init uint8, tolerateDoubleAccept bool) porcupine.Model {
	const absent, present, open = 1, 2, 4
	step := func(cs uint8, in c14In, out string) uint8 { // concrete state -> set of successors
		switch in.kind {
		case c14AddDet:
			switch out {
			case "ok":
				if cs == absent || tolerateDoubleAccept {
					return present
				}
				return 0
			case "dup":
				if cs == present {
					return present
				}
				return 0
			default:
				return cs
			}
		case c14AddMaybe:
			return cs | present
		case c14Get:
			if (out == "t") == (cs == present) {
				return cs
			}
			return 0
		case c14Rm:
			return absent
		case c14Open:
			return cs
		case c14Final: // sentinel closing a segment: "the concrete state is <out> now"
			if (out == "p") == (cs == present) {
				return cs
			}
			return 0
		}
		return 0
	}
	return porcupine.Model{
		Init: func() interface{} { return init },
		Step: func(st interface{}, input interface{}, output interface{}) (bool, interface{}) {
			s := st.(uint8)
			in := input.(c14In)
			flag := s & open
			if in.kind == c14Open {
				flag = open
			}
			if flag != 0 && s&absent != 0 {
				s |= present // the background adder may have acted before this operation
			}
			var n uint8
			for _, cs := range []uint8{absent, present} {
				if s&cs != 0 {
					n |= step(cs, in, output.(string))
				}
			}
			if n == 0 {
				return false, s
			}
			if flag != 0 && n&absent != 0 {
				n |= present
			}
			return true, n | flag
		},
		Equal: func(a, b interface{}) bool { return a.(uint8) == b.(uint8) },
		DescribeOperation: func(input interface{}, output interface{}) string {
			return fmt.Sprintf("%c->%s", input.(c14In).kind, output.(string))
		},
	}
}

func c14ToOps(recs []c14Rec) []porcupine.Operation {
	ops := make([]porcupine.Operation, 0, len(recs))
	for _, r := range recs {
		ops = append(ops, porcupine.Operation{ClientId: r.client, Input: c14In{r.kind}, Call: r.call, Output: r.out, Return: r.ret})
	}
	return ops
}

// c14OrderSig is the call/return order of one hash's history with goroutines renamed by
// first appearance.
func c14OrderSig(recs []c14Rec) (sig string, clients int) {
	type ev struct {
		t    int64
		text string
		cl   int
	}
	var evs []ev
	for _, r := range recs {
		if r.call == r.ret {
			evs = append(evs, ev{r.call, fmt.Sprintf("%c", r.kind), r.client})
			continue
		}
		evs = append(evs, ev{r.call, fmt.Sprintf("%c(", r.kind), r.client}, ev{r.ret, fmt.Sprintf(")%c%s", r.kind, r.out), r.client})
	}
	sort.SliceStable(evs, func(i, j int) bool { return evs[i].t < evs[j].t })
	ren := map[int]int{}
	var sb strings.Builder
	for _, e := range evs {
		id, ok := ren[e.cl]
		if !ok {
			id = len(ren)
			ren[e.cl] = id
		}
		fmt.Fprintf(&sb, "%d%s ", id, e.text)
	}
	return sb.String(), len(ren)
}

func c14HistoryText(recs []c14Rec) []string {
	s := append([]c14Rec{}, recs...)
	sort.Slice(s, func(i, j int) bool { return s[i].call < s[j].call })
	var out []string
	for _, r := range s {
		out = append(out, fmt.Sprintf("[%d,%d] g%d %c %s -> %s", r.call, r.ret, r.client, r.kind, r.path, r.out))
	}
	return out
}

// ------------------------------------------------------------------ the run

type c14Item struct {
	raw    []byte
	tx     *types.Transaction
	hash   common.Hash
	sender common.Address
	own    bool
}

type c14Corpus struct {
	items   []*c14Item
	own     []*c14Item
	senders []common.Address
}

type c14Conc struct {
	rep   *verifutil.Report
	run   int
	seed  uint64
	w     *World
	p     *Replica
	pool  *mempool.TxPool
	async *mempool.AsyncTxPool
	r     *verifutil.Rng
	mp    *config.Mempool

	clock    int64
	progress *int64
	subOps   int64
	stop     int32
	corpus   atomic.Value // *c14Corpus
	nSub     int

	engineOpStart int64
	engineRecs    []c14Rec
	syncWins      [][2]int64
	subRecs       [][]c14Rec
	panics        int32
	abort         *int32 // set by the watchdog when the run is abandoned

	cache   map[string]*c14Item // (sender, epoch, nonce, variant) -> item
	actors  []*Actor
	idents  []*Actor
	blocks  int
	failed  bool
	phase   string
	pointNo int64
	period  state.ValidationPeriod // of the head, from the engine's private view
	epoch   uint16
}

func (c *c14Conc) tick() int64 { return atomic.AddInt64(&c.clock, 1) }

func (c *c14Conc) item(key string, mk func() *types.Transaction) *c14Item {
	if it, ok := c.cache[key]; ok {
		return it
	}
	tx := mk()
	raw, _ := tx.ToBytes()
	it := &c14Item{raw: raw, tx: tx, hash: tx.Hash(), sender: senderOf(tx), own: senderOf(tx) == c.p.Owner.Addr}
	c.cache[key] = it
	return it
}

// refreshCorpus (engine only) publishes the txs the submitters draw from: for every contended
// sender a window of nonces after the committed one (some nonces in two variants), one tx of
// the next epoch, ceremony txs while a validation period is on, and a tail of older items.
func (c *c14Conc) refreshCorpus() {
	// a private read-only view of the committed state: the harness does not touch the
	// canonical StateDB while submitters are inside the pool
	st, err := c.p.AppState.State.Readonly(int64(c.p.Head().Height()))
	if err != nil {
		panic(fmt.Sprintf("C14 harness: no read-only view at %d: %v", c.p.Head().Height(), err))
	}
	ns := c.p.AppState.ValidatorsCache.NetworkSize()
	c.period = st.ValidationPeriod()
	c.epoch = st.Epoch()
	ep := st.Epoch()
	cp := &c14Corpus{}
	add := func(it *c14Item) {
		cp.items = append(cp.items, it)
		if it.own {
			cp.own = append(cp.own, it)
		}
	}
	window := 5
	for ai, a := range c.actors {
		cp.senders = append(cp.senders, a.Addr)
		base := c14Committed(st, a.Addr)
		for k := 0; k <= window; k++ { // k == 0: the consumed nonce (stale)
			n := base + uint32(k)
			if n == 0 {
				continue
			}
			for v := 0; v < 2; v++ {
				if v == 1 && (int(n)+ai)%3 != 0 {
					continue
				}
				a, n, v := a, n, v
				add(c.item(fmt.Sprintf("%s/%d/%d/%d", a.Name, ep, n, v), func() *types.Transaction {
					to := c.actors[(ai+1)%len(c.actors)].Addr
					return c14TxAt(st, ns, a, types.SendTx, &to, bigN(1e12+int64(n)*1000+int64(v)), nil, n, ep, 30)
				}))
			}
		}
		a2 := a
		add(c.item(fmt.Sprintf("%s/%d/next-epoch", a.Name, ep), func() *types.Transaction {
			to := c.actors[(ai+1)%len(c.actors)].Addr
			return c14TxAt(st, ns, a2, types.SendTx, &to, bigN(7e12), nil, 1, ep+1, 30)
		}))
	}
	if st.ValidationPeriod() != state.NonePeriod {
		for _, a := range c.idents {
			if !state.IsCeremonyCandidate(st.GetIdentity(a.Addr)) {
				continue
			}
			cp.senders = append(cp.senders, a.Addr)
			base := c14Committed(st, a.Addr)
			for ti, t := range c14PriorityTypes {
				a, t := a, t
				n := base + 1 + uint32(ti)%3
				add(c.item(fmt.Sprintf("%s/%d/%d/cer%d", a.Name, ep, n, t), func() *types.Transaction {
					return c14CeremonyTxAt(st, ns, c.r, a, t, n, ep)
				}))
			}
		}
	}
	if old, ok := c.corpus.Load().(*c14Corpus); ok && old != nil {
		for i, it := range old.items {
			if i%6 == c.blocks%6 {
				add(it)
			}
		}
	}
	c.corpus.Store(cp)
}

func bigN(v int64) *big.Int { return big.NewInt(v) }

// ---- submitters

func (c *c14Conc) decode(it *c14Item, r *verifutil.Rng) *types.Transaction {
	if r.Intn(4) == 0 {
		return it.tx // the very object another goroutine may be submitting (RPC object re-gossiped)
	}
	tx := new(types.Transaction)
	if err := tx.FromBytes(it.raw); err != nil {
		return it.tx
	}
	return tx
}

func (c *c14Conc) submitter(id int, wg *sync.WaitGroup) {
	defer wg.Done()
	r := verifutil.NewRng(c.seed, uint64(1000+id))
	recs := make([]c14Rec, 0, 4096)
	defer func() {
		c.subRecs[id] = recs
		if p := recover(); p != nil {
			atomic.AddInt32(&c.panics, 1)
			stack := string(debug.Stack())
			c.rep.Violation("panic:"+verifutil.TopRepoFrame(stack), fmt.Sprintf("concurrent run %d: submitter %d panicked: %v", c.run, id, p), map[string]interface{}{"stack": verifutil.Trunc(stack, 4000)})
		}
	}()
	role := id % 4 // 0 gossip, 1 rpc, 2 internal+rpc, 3 reader+gossip
	for atomic.LoadInt32(&c.stop) == 0 && atomic.LoadInt32(c.abort) == 0 {
		cp := c.corpus.Load().(*c14Corpus)
		it := cp.items[r.Intn(len(cp.items))]
		var sel int
		switch role {
		case 0:
			sel = r.Pick(40, 25, 10, 0, 15, 10)
		case 1:
			sel = r.Pick(5, 5, 60, 0, 20, 10)
		case 2:
			sel = r.Pick(5, 5, 25, 40, 15, 10)
		default:
			sel = r.Pick(20, 10, 10, 0, 35, 25)
		}
		switch sel {
		case 0: // gossip: async queue (1..3 txs)
			n := r.Range(1, 3)
			if c.async.VerifQueueLen() > 1500 {
				n = 0 // the worker is far behind: do not pile up more
			}
			for k := 0; k < n; k++ {
				it := cp.items[r.Intn(len(cp.items))]
				tx := c.decode(it, r)
				t0 := c.tick()
				c.async.AddExternalTxs(validation.InboundTx, tx)
				recs = append(recs, c14Rec{hash: it.hash, kind: c14AddMaybe, out: "?", call: t0, ret: c.tick(), client: id, path: "async"})
			}
		case 1: // gossip: a batch handed to the pool directly
			n := r.Range(2, 4)
			var txs []*types.Transaction
			var its []*c14Item
			for k := 0; k < n; k++ {
				it := cp.items[r.Intn(len(cp.items))]
				its = append(its, it)
				txs = append(txs, c.decode(it, r))
			}
			t0 := c.tick()
			c.pool.AddExternalTxs(validation.InboundTx, txs...)
			t1 := c.tick()
			for _, it := range its {
				recs = append(recs, c14Rec{hash: it.hash, kind: c14AddMaybe, out: "?", call: t0, ret: t1, client: id, path: "batch"})
			}
		case 2: // RPC path: one tx, the verdict is returned
			tx := c.decode(it, r)
			tt := validation.InboundTx
			if r.Intn(3) == 0 {
				tt = validation.MempoolTx
			}
			if r.Intn(5) == 0 {
				c.pool.Validate(tx)
			}
			t0 := c.tick()
			err := c.pool.AddExternalTxs(tt, tx)
			t1 := c.tick()
			recs = append(recs, c14Rec{hash: it.hash, kind: c14AddDet, out: c14Verdict(err), call: t0, ret: t1, client: id, path: "external"})
		case 3: // own tx
			if len(cp.own) == 0 {
				continue
			}
			it := cp.own[r.Intn(len(cp.own))]
			tx := c.decode(it, r)
			t0 := c.tick()
			err := c.pool.AddInternalTx(tx)
			t1 := c.tick()
			recs = append(recs, c14Rec{hash: it.hash, kind: c14AddDet, out: c14Verdict(err), call: t0, ret: t1, client: id, path: "internal"})
		case 4: // lookup by hash
			t0 := c.tick()
			got := c.pool.GetTx(it.hash) != nil
			t1 := c.tick()
			o := "f"
			if got {
				o = "t"
			}
			recs = append(recs, c14Rec{hash: it.hash, kind: c14Get, out: o, call: t0, ret: t1, client: id, path: "GetTx"})
		default: // the rest of the read API
			switch r.Intn(6) {
			case 0:
				c.pool.GetPendingByAddress(cp.senders[r.Intn(len(cp.senders))])
			case 1:
				c.pool.GetPendingTransaction(false, r.Bool(), common.MultiShard, true)
			case 2:
				c.pool.GetPriorityTransaction()
			case 3:
				c.pool.Has(it.tx.Hash128())
				c.pool.Get(it.tx.Hash128())
			case 4:
				c.pool.IsSyncing()
			default:
				c.pool.GetPendingTransaction(true, true, common.ShardId(1), false)
			}
		}
		atomic.AddInt64(&c.subOps, 1)
		atomic.AddInt64(c.progress, 1)
		switch r.Intn(8) {
		case 0:
			runtime.Gosched()
		case 1, 2:
			time.Sleep(30 * time.Microsecond) // keeps the volume per block moderate
		}
	}
}

func c14Verdict(err error) string {
	switch {
	case err == nil:
		return "ok"
	case err == mempool.DuplicateTxError:
		return "dup"
	}
	return "rej"
}

// ---- engine

func (c *c14Conc) waitSubmitters(n int64) {
	target := atomic.LoadInt64(&c.subOps) + n
	for atomic.LoadInt64(&c.subOps) < target && atomic.LoadInt32(&c.panics) == 0 && atomic.LoadInt32(c.abort) == 0 {
		time.Sleep(200 * time.Microsecond)
	}
}

func (c *c14Conc) moveClock() {
	w := c.w
	now := w.Now()
	if ht := time.Unix(c.p.Head().Time(), 0); now.Before(ht) {
		now = ht
	}
	setClock(now.Add(time.Duration(c.r.Range(8, 30)) * time.Second))
}

// checkOffer: the candidate list right after it was built, against a private read-only view
// of the committed state (only the engine changes the chain, so the view is exact).
func (c *c14Conc) checkOffer(where string) {
	list := c.pool.BuildBlockTransactions()
	ro, err := c.p.AppState.State.Readonly(int64(c.p.Head().Height()))
	if err != nil {
		c.rep.Note("C14 conc: no read-only view at %d: %v", c.p.Head().Height(), err)
		return
	}
	c.rep.Count("conc_offers_checked", 1)
	if len(list) > 0 {
		c.rep.Count("conc_nonempty_offers", 1)
	}
	if sig, desc := c14CheckOffer(list, ro, types.MaxBlockSize(c.p.Cfg.Consensus.EnableUpgrade11)); sig != "" {
		var d []string
		for _, tx := range list {
			h := tx.Hash()
			d = append(d, fmt.Sprintf("%s{%x n=%d e=%d %x}", TxName(tx.Type), senderOf(tx).Bytes()[:3], tx.AccountNonce, tx.Epoch, h[:4]))
		}
		c.rep.Violation("conc:"+sig, fmt.Sprintf("concurrent run %d (seed %d) %s at height %d: %s", c.run, c.seed, where, c.p.Head().Height(), desc), map[string]interface{}{"offered": d, "run": c.run, "seed": c.seed})
	}
}

func (c *c14Conc) oneBlock() bool {
	c.moveClock()
	var b *types.Block
	var err error
	t0 := c.tick()
	atomic.StoreInt64(&c.engineOpStart, t0)
	if c.r.Intn(100) < 12 {
		b = c.p.Chain.GenerateEmptyBlock()
		if t := time.Unix(b.Header.Time(), 0); c.w.Now().Before(t) {
			setClock(t)
		}
		err = c.p.AddBlock(b)
	} else {
		prop := c.w.Propose(c.p)
		b = prop.Block
		err = c.p.Receive(prop)
	}
	if err != nil {
		// C02's matter; without blocks the run cannot go on
		c.rep.Note("C14 conc run %d: block %d refused: %v", c.run, b.Height(), err)
		c.failed = true
		return false
	}
	c.blocks++
	c.rep.Count("conc_blocks", 1)
	c.rep.Count("conc_txs_in_blocks", len(b.Body.Transactions))
	atomic.AddInt64(c.progress, 1)
	c.refreshCorpus()
	c.rep.Count(fmt.Sprintf("conc_blocks_in_period_%d", c.period), 1)
	return true
}

func (c *c14Conc) engine(nBlocks int) {
	epoch0 := c.epoch
	for i := 0; i < nBlocks && !c.failed && atomic.LoadInt32(&c.panics) == 0 && atomic.LoadInt32(c.abort) == 0; i++ {
		c.phase = fmt.Sprintf("block %d", i)
		c.waitSubmitters(int64(c.r.Range(30, 90)))
		c.checkOffer("before proposing")
		if c.r.Intn(11) == 0 {
			// a short synchronisation: blocks arrive without ResetTo, submissions are deferred
			s0 := c.tick()
			atomic.StoreInt64(&c.engineOpStart, s0)
			c.p.Chain.StartSync()
			c.rep.Count("conc_sync_windows", 1)
			for k := c.r.Range(1, 2); k > 0 && !c.failed; k-- {
				c.waitSubmitters(int64(c.r.Range(5, 25)))
				if !c.oneBlock() {
					break
				}
			}
			c.waitSubmitters(int64(c.r.Range(5, 25)))
			atomic.StoreInt64(&c.engineOpStart, c.tick())
			c.p.Chain.StopSync()
			c.syncWins = append(c.syncWins, [2]int64{s0, c.tick()})
			c.refreshCorpus()
			continue
		}
		if !c.oneBlock() {
			break
		}
	}
	if c.epoch != epoch0 {
		c.rep.Count("conc_epoch_changes", 1)
	}
}

// c14ChainCollector is handed to Chain.AddBlock (Replica.Stats): callbacks the chain makes
// while it validates / applies a block precede the pool's ResetTo of that block in the same
// goroutine, so each of them is a tighter lower bound for the moment of the removals.
type c14ChainCollector struct {
	collector.StatsCollector
	mark func()
}

func (k *c14ChainCollector) EnableCollecting() { k.mark(); k.StatsCollector.EnableCollecting() }
func (k *c14ChainCollector) AddMintedCoins(amount *big.Int) {
	k.mark()
	k.StatsCollector.AddMintedCoins(amount)
}
func (k *c14ChainCollector) AddProposerReward(balanceDest, stakeDest common.Address, balance, stake *big.Int, stakeWeight *big.Float) {
	k.mark()
	k.StatsCollector.AddProposerReward(balanceDest, stakeDest, balance, stake, stakeWeight)
}

func (c *c14Conc) onRemove(tx *types.Transaction) {
	// runs synchronously inside ResetTo, i.e. in the engine goroutine, under the pool mutex.
	// The deletion itself happened between the start of the engine's operation and now.
	t := c.tick()
	c.engineRecs = append(c.engineRecs, c14Rec{hash: tx.Hash(), kind: c14Rm, out: "", call: atomic.LoadInt64(&c.engineOpStart), ret: t, client: c.nSub, path: "RemoveMemPoolTx"})
	// removals of one ResetTo are sequential: the next one happens after this callback
	atomic.StoreInt64(&c.engineOpStart, t)
}

// drain waits until the gossip queue's worker can no longer change the pool. First the queue
// must be empty (every real tx taken by the worker; its last batch may still be in
// progress). Then 1001 copies of a tx that every pool rejects (negative amount) are queued:
// batches hold at most 1000 txs and are processed one after the other, so once the queue is
// empty again a batch AFTER the one that followed the last real batch was taken, i.e. the
// last real batch has been completed.
func (c *c14Conc) drain() {
	waitEmpty := func() {
		last := -1
		for {
			n := c.async.VerifQueueLen()
			if n == 0 {
				return
			}
			if n != last {
				last = n
				atomic.AddInt64(c.progress, 1) // the worker is alive
			}
			time.Sleep(time.Millisecond)
		}
	}
	waitEmpty()
	dummy := SignedTx(c.actors[0], types.SendTx, &c.actors[1].Addr, big.NewInt(-1), Dna(1), nil, 1, c.epoch, nil)
	for k := 0; k < 1001; k++ {
		if err := c.async.AddExternalTxs(validation.InboundTx, dummy); err != nil {
			panic("C14 harness: the gossip queue refused a drain marker: " + err.Error())
		}
	}
	waitEmpty()
}

func (c *c14Conc) quiescentChecks() {
	pool := c.pool
	st := c.p.AppState.State
	// the final ResetTo(head), through the chain's own StopSync
	atomic.StoreInt64(&c.engineOpStart, c.tick())
	c.p.Chain.StartSync()
	c.p.Chain.StopSync()
	head := c.p.Chain.GetBlock(c.p.Head().Hash())
	listed := map[common.Hash]*types.Transaction{}
	for _, tx := range pool.GetPendingTransaction(true, true, common.MultiShard, false) {
		listed[tx.Hash()] = tx
	}
	consider := map[common.Hash]*types.Transaction{}
	for h, tx := range listed {
		consider[h] = tx
	}
	for _, it := range c.cache {
		consider[it.hash] = it.tx
	}
	viol := func(sig, desc string) {
		c.rep.Violation("quiescent:"+sig, fmt.Sprintf("concurrent run %d (seed %d), at quiescence after the final ResetTo(head %d): %s", c.run, c.seed, head.Height(), desc), map[string]interface{}{"run": c.run, "seed": c.seed})
	}
	byAddr := map[common.Address]map[common.Hash]int{}
	for h, tx := range consider {
		a := senderOf(tx)
		m, ok := byAddr[a]
		if !ok {
			m = map[common.Hash]int{}
			for _, t := range pool.GetPendingByAddress(a) {
				m[t.Hash()]++
			}
			byAddr[a] = m
		}
		gh := pool.GetTx(h) != nil
		_, gl := listed[h]
		if gh != (m[h] > 0) || gh != gl {
			viol("index-incoherent", fmt.Sprintf("the pool's views disagree on %s nonce %d epoch %d of %x: GetTx=%v GetPendingByAddress=%d GetPendingTransaction=%v", TxName(tx.Type), tx.AccountNonce, tx.Epoch, a[:4], gh, m[h], gl))
			break
		}
		if m[h] > 1 {
			viol("listed-twice", fmt.Sprintf("GetPendingByAddress lists %s nonce %d epoch %d of %x %d times (the tx sits in the executable and in the pending queue)", TxName(tx.Type), tx.AccountNonce, tx.Epoch, a[:4], m[h]))
			break
		}
	}
	for _, tx := range head.Body.Transactions {
		if pool.GetTx(tx.Hash()) != nil {
			viol("block-tx-remains", fmt.Sprintf("tx %x of the head block is still retrievable", tx.Hash().Bytes()[:6]))
			break
		}
	}
	if c.mp.ResetInCeremony || st.ValidationPeriod() <= state.FlipLotteryPeriod {
		c.rep.Count("conc_final_resets_outside_sessions", 1)
		ge := st.Epoch()
		for _, tx := range listed {
			a := senderOf(tx)
			if tx.Epoch < ge {
				viol("past-epoch-remains", fmt.Sprintf("%s nonce %d of %x has epoch %d, chain epoch %d", TxName(tx.Type), tx.AccountNonce, a[:4], tx.Epoch, ge))
				break
			}
			if tx.Epoch == ge && st.GetEpoch(a) == ge && st.GetNonce(a) >= tx.AccountNonce {
				viol("consumed-nonce-remains", fmt.Sprintf("%s nonce %d of %x remains, committed nonce %d", TxName(tx.Type), tx.AccountNonce, a[:4], st.GetNonce(a)))
				break
			}
		}
	}
	c.checkOffer("at quiescence")
	c.rep.Max("conc_max_pool_size_at_end", len(listed))
}

// linearizability of the per-hash histories
func (c *c14Conc) checkHistories(tEnd int64, seen map[string]bool) {
	all := append([]c14Rec{}, c.engineRecs...)
	for _, l := range c.subRecs {
		all = append(all, l...)
	}
	inWin := func(r c14Rec) bool {
		for _, w := range c.syncWins {
			if r.call <= w[1] && r.ret >= w[0] {
				return true
			}
		}
		return false
	}
	per := map[common.Hash][]c14Rec{}  // what the checker gets
	orig := map[common.Hash][]c14Rec{} // what was recorded (signatures, replay data)
	opened := map[common.Hash]int64{}
	for _, r := range all {
		orig[r.hash] = append(orig[r.hash], r)
		unbounded := false
		switch {
		case r.kind == c14AddDet && inWin(r):
			// the pool may have deferred it: re-added by a later StopSync, or dropped
			unbounded = true
			c.rep.Count("conc_adds_in_sync_window", 1)
		case r.kind == c14AddMaybe && (r.path == "async" || inWin(r)):
			unbounded = true
		}
		if unbounded {
			if t, ok := opened[r.hash]; !ok || r.call < t {
				opened[r.hash] = r.call
			}
			continue
		}
		per[r.hash] = append(per[r.hash], r)
	}
	for h, t := range opened {
		per[h] = append(per[h], c14Rec{hash: h, kind: c14Open, out: "", call: t, ret: t, client: c.nSub + 1, path: "background adds possible from here"})
	}
	_ = tEnd
	deadline := time.Now().Add(60 * time.Second)
	var hashes []common.Hash
	for h := range per {
		hashes = append(hashes, h)
	}
	sort.Slice(hashes, func(i, j int) bool { return string(hashes[i][:]) < string(hashes[j][:]) })
	c.rep.Count("conc_hashes_with_history", len(hashes))
	c.rep.Count("conc_history_ops", len(all))
	for _, h := range hashes {
		atomic.AddInt64(c.progress, 1)
		for _, r := range orig[h] {
			switch r.kind {
			case c14AddDet:
				c.rep.Count("conc_add_"+r.out, 1)
			case c14Rm:
				c.rep.Count("conc_removals_reported", 1)
			case c14Get:
				c.rep.Count("conc_get_"+r.out, 1)
			}
		}
		// evidence: call/return orders of the bursts in which >= 2 goroutines overlapped on this hash
		for _, seg := range c14Segments(orig[h]) {
			if len(seg) < 2 {
				continue
			}
			sig, clients := c14OrderSig(seg)
			if clients < 2 {
				continue
			}
			c.rep.Count("conc_overlapping_bursts", 1)
			c.rep.Distinct("conc", sig)
			if !seen[sig] {
				seen[sig] = true
				c.rep.Count("interleaving_signatures", 1)
				if len(seen)%25 == 1 && len(seg) <= 8 {
					c.rep.Sample(map[string]interface{}{"part": "concurrent", "per_hash_event_order": sig})
				}
			}
		}
		// the check proper: the history is cut at its quiescent points (no operation open);
		// every segment is checked from the set of states the previous one can end in
		segs := c14Segments(per[h])
		c.rep.Count("conc_segments_checked", len(segs))
		bad, st, res := c14CheckHash(segs, false, deadline)
		if res == porcupine.Unknown {
			c.rep.Inconcl("concurrent run %d: porcupine ran out of its 60 s budget (history of %d operations)", c.run, len(per[h]))
			if os.Getenv("VERIF_C14_DUMP") != "" {
				fmt.Printf("C14 TIMEOUT run %d hash %x:\n%s\n", c.run, h[:6], strings.Join(c14HistoryText(per[h]), "\n"))
			}
			return
		}
		if bad >= 0 {
			// classify: is "a tx that is present was accepted once more" the only thing the
			// model cannot explain? (the whole history is re-checked with that tolerated:
			// an early removal interval can mask the second accept in the strict pass)
			class, what := "double-accept", "the same tx was accepted (nil error) by two overlapping adds although no removal separates them; with that tolerated every other verdict and lookup is consistent"
			bad2, st2, res2 := c14CheckHash(segs, true, time.Now().Add(30*time.Second))
			if res2 == porcupine.Unknown || bad2 >= 0 {
				class, what = "other", "no order of the operations that is compatible with real time explains the returned verdicts and lookups (a second accept of a present tx tolerated)"
				if bad2 >= 0 {
					bad, st = bad2, st2
				}
			}
			c.rep.Violation("linearizability:"+class, fmt.Sprintf("concurrent run %d (seed %d): the history of tx %x is not linearizable w.r.t. {absent,present}: %s", c.run, c.seed, h[:6], what),
				map[string]interface{}{"run": c.run, "seed": c.seed, "offending_segment": c14HistoryText(segs[bad]), "possible_states_before_segment(1=absent,2=present,4=background adds)": st,
					"history_recorded": c14HistoryText(orig[h]), "sync_windows": c.syncWins})
		}
		c.rep.Count("conc_histories_checked", 1)
	}
}

// c14Segments cuts a history at its quiescent points.
func c14Segments(recs []c14Rec) [][]c14Rec {
	s := append([]c14Rec{}, recs...)
	sort.SliceStable(s, func(i, j int) bool { return s[i].call < s[j].call })
	var out [][]c14Rec
	var cur []c14Rec
	maxRet := int64(-1)
	for _, r := range s {
		if len(cur) > 0 && r.call > maxRet {
			out = append(out, cur)
			cur = nil
		}
		cur = append(cur, r)
		if r.ret > maxRet {
			maxRet = r.ret
		}
	}
	if len(cur) > 0 {
		out = append(out, cur)
	}
	return out
}

// c14CheckHash checks the segments of one hash in order; returns the index of the first
// segment that cannot be linearized (-1: none) and the state set it was entered with.
func c14CheckHash(segs [][]c14Rec, tolerateDoubleAccept bool, deadline time.Time) (int, uint8, porcupine.CheckResult) {
	st := uint8(1)
	for i, seg := range segs {
		left := time.Until(deadline)
		if left <= 0 {
			return -1, st, porcupine.Unknown
		}
		finals, res := c14CheckSegment(seg, st, left, tolerateDoubleAccept)
		if res == porcupine.Unknown {
			return -1, st, porcupine.Unknown
		}
		if finals == 0 {
			return i, st, porcupine.Illegal
		}
		st = finals
	}
	return -1, st, porcupine.Ok
}

// c14CheckSegment returns the set of states (model encoding) a segment can end in when it
// starts in one of the states of init; 0 = the segment is not linearizable.
func c14CheckSegment(seg []c14Rec, init uint8, timeout time.Duration, tolerateDoubleAccept bool) (uint8, porcupine.CheckResult) {
	flag := init & 4
	last := int64(0)
	for _, r := range seg {
		if r.kind == c14Open {
			flag = 4
		}
		if r.ret > last {
			last = r.ret
		}
	}
	model := c14Model(init, tolerateDoubleAccept)
	var finals uint8
	for _, x := range []struct {
		bit uint8
		out string
	}{{1, "a"}, {2, "p"}} {
		ops := c14ToOps(append(append([]c14Rec{}, seg...), c14Rec{kind: c14Final, out: x.out, call: last + 1, ret: last + 2, client: 1 << 20}))
		switch porcupine.CheckOperationsTimeout(model, ops, timeout) {
		case porcupine.Ok:
			finals |= x.bit
		case porcupine.Unknown:
			return 0, porcupine.Unknown
		}
	}
	if finals == 0 {
		return 0, porcupine.Illegal
	}
	return finals | flag, porcupine.Ok
}

func c14ConcRun(rep *verifutil.Report, run int, progress *int64, seen map[string]bool, abort *int32) {
	seed := scenSeed(run)*37 + 1400
	r := verifutil.NewRng(seed, 1414)
	mp := &config.Mempool{
		TxPoolQueueSlots:          r.Range(3, 16),
		TxPoolExecutableSlots:     16,
		TxPoolAddrQueueLimit:      r.Range(2, 6),
		TxPoolAddrExecutableLimit: r.Range(2, 6),
		TxLifetime:                3 * time.Hour,
		ResetInCeremony:           run%4 == 3,
	}
	o := Options{Seed: seed, NNodes: 0, NIdent: 4, NAccounts: 4, AllValidated: true,
		ValidationInterval: 30 * time.Minute, FirstCeremonyIn: time.Duration(3+run%3*2) * time.Minute, MempoolCfg: mp}
	w := NewWorld(o)
	defer w.Cleanup()
	if err := w.Prologue(); err != nil {
		rep.Inconcl("C14 concurrent run %d: harness set-up failed: %v", run, err)
		return
	}
	c := &c14Conc{rep: rep, run: run, seed: seed, w: w, p: w.Replicas[0], r: r, mp: mp, progress: progress, cache: map[string]*c14Item{}, abort: abort}
	c.pool = c.p.TxPool
	c.pool.VerifSetStatsCollector(&c14Collector{StatsCollector: collector.NewStatsCollector(), onRemove: c.onRemove})
	c.p.Stats = &c14ChainCollector{StatsCollector: c.p.Stats, mark: func() { atomic.StoreInt64(&c.engineOpStart, c.tick()) }}
	c.async = mempool.NewAsyncTxPool(c.pool)
	c.actors = append([]*Actor{}, w.Accounts[:3]...)
	c.actors = append(c.actors, w.God) // the pool's own address
	c.idents = w.Idents[:2]
	c.nSub = 4 + int(r.Intn(9)) // 4..12
	c.subRecs = make([][]c14Rec, c.nSub)
	rep.Count(fmt.Sprintf("conc_runs_with_%02d_submitters", c.nSub), 1)
	c.refreshCorpus()
	verifclock.ArmPoint("txpool.afterReadonly", func() {
		n := atomic.AddInt64(&c.pointNo, 1)
		if n%23 == 0 {
			time.Sleep(time.Duration(20+n%7*30) * time.Microsecond)
		} else {
			runtime.Gosched()
		}
	})
	defer verifclock.ArmPoint("txpool.afterReadonly", nil)

	var wg sync.WaitGroup
	for i := 0; i < c.nSub; i++ {
		wg.Add(1)
		go c.submitter(i, &wg)
	}
	var engPanic interface{}
	var engStack string
	engPanic, engStack = verifutil.Catch(func() { c.engine(verifutil.Scale(36, 60)) })
	atomic.StoreInt32(&c.stop, 1)
	c.phase = "stopping submitters"
	wg.Wait()
	if atomic.LoadInt32(c.abort) != 0 {
		return
	}
	if engPanic != nil {
		rep.Violation("panic:"+verifutil.TopRepoFrame(engStack), fmt.Sprintf("concurrent run %d: engine goroutine panicked in %s: %v", run, c.phase, engPanic), map[string]interface{}{"stack": verifutil.Trunc(engStack, 4000)})
		return
	}
	if atomic.LoadInt32(&c.panics) > 0 {
		return
	}
	c.phase = "draining the gossip queue"
	c.drain()
	c.phase = "quiescent checks"
	if p, stack := verifutil.Catch(c.quiescentChecks); p != nil {
		rep.Violation("panic:"+verifutil.TopRepoFrame(stack), fmt.Sprintf("concurrent run %d: panic in %s: %v", run, c.phase, p), map[string]interface{}{"stack": verifutil.Trunc(stack, 4000)})
		return
	}
	tEnd := c.tick()
	c.phase = "porcupine"
	c.checkHistories(tEnd, seen)
	rep.Count("conc_point_hits", int(verifclock.PointHits("txpool.afterReadonly")))
	rep.Count("conc_submitter_ops", int(atomic.LoadInt64(&c.subOps)))
	rep.Eval(1)
	rep.Count("conc_runs", 1)
	c14Release(w)
}

func TestVerifC14Conc(t *testing.T) {
	if !verifutil.Enabled() {
		t.Skip("verif harness")
	}
	rep := verifutil.NewReport()
	defer rep.Write()
	nRuns := verifutil.Scale(2, 40)
	seen := map[string]bool{}
	for i := 0; i < nRuns; i++ {
		run := i
		rep.Progress("C14conc run %d", run)
		var progress int64
		var abort int32
		ok, dump, pnc, stack := c14Watch(&progress, c14Stall(), &abort, func() { c14ConcRun(rep, run, &progress, seen, &abort) })
		if pnc != nil {
			rep.Violation("panic:"+verifutil.TopRepoFrame(stack), fmt.Sprintf("concurrent run %d: panic %v", run, pnc), map[string]interface{}{"stack": verifutil.Trunc(stack, 4000)})
			continue
		}
		if ok {
			continue
		}
		at := atomic.LoadInt64(&progress)
		fmt.Printf("C14: concurrent run %d stalled (progress counter %d); goroutines:\n%s\n", run, at, dump)
		var progress2 int64
		var abort2 int32
		ok2, dump2, _, _ := c14Watch(&progress2, c14Stall(), &abort2, func() { c14ConcRun(rep, run, &progress2, map[string]bool{}, &abort2) })
		if !ok2 {
			rep.Violation("deadlock", fmt.Sprintf("concurrent run %d: no submitter operation and no block completed for %v (progress counter %d), and again (counter %d) when the run was repeated", run, c14Stall(), at, atomic.LoadInt64(&progress2)),
				map[string]interface{}{"run": run, "mempool_goroutines_first": c14MempoolFrames(dump), "mempool_goroutines_retry": c14MempoolFrames(dump2)})
		} else {
			rep.Inconcl("concurrent run %d stalled for %v but the stall did not reproduce", run, c14Stall())
		}
		return // an abandoned goroutine may still hold the simulator's globals
	}
}
