package verifsim

import (
	"github.com/idena-network/idena-go/blockchain/types"
	"github.com/idena-network/idena-go/common"
	"github.com/idena-network/idena-go/core/validators"
	"github.com/idena-network/idena-go/crypto"
)

// SignVote signs a vote for (round, step, parent, voted) with a's key.
func SignVote(a *Actor, round uint64, step uint8, parent, voted common.Hash) *types.Vote {
	v := &types.Vote{Header: &types.VoteHeader{Round: round, Step: step, ParentHash: parent, VotedHash: voted}}
	h := crypto.SignatureHash(v)
	sig, err := crypto.Sign(h[:], a.Key)
	if err != nil {
		panic(err)
	}
	v.Signature = sig
	return v
}

// MakeCert builds a certificate for block b (child of prev): every approved member of the
// step committee whose key the harness holds votes. vc must be the validator view at prev;
// committeeSize/threshold come from the chain under test only to REPORT whether a quorum
// was reached (quorum=false certificates are useful as hostile inputs).
func (w *World) MakeCert(r *Replica, vc *validators.ValidatorsCache, prev *types.Header, b *types.Block, step uint8) (cert *types.FullBlockCert, quorum bool) {
	final := step == types.Final
	committee := vc.GetOnlineValidators(prev.Seed(), b.Height(), step, r.Chain.GetCommitteeSize(vc, final))
	cert = &types.FullBlockCert{}
	if committee == nil {
		return cert, false
	}
	n := 0
	for _, x := range committee.ApprovedValidators.ToSlice() {
		addr := x.(common.Address)
		a, ok := w.ByAddr[addr]
		if !ok {
			continue
		}
		cert.Votes = append(cert.Votes, SignVote(a, b.Height(), step, prev.Hash(), b.Hash()))
		n++
	}
	need := r.Chain.GetCommitteeVotesThreshold(vc, final) - committee.VotesCountSubtrahend(w.Cons.AgreementThreshold)
	return cert, n >= need && n > 0
}
