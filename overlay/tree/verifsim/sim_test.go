package verifsim

import (
	"fmt"
	"testing"
	"time"

	"github.com/idena-network/idena-go/verifutil"
)

// smoke test of the simulator itself (not a property check)
func TestVerifSimSmoke(t *testing.T) {
	if !verifutil.Enabled() {
		t.Skip("verif harness")
	}
	rep := verifutil.NewReport()
	defer rep.Write()
	w := NewWorld(Options{Seed: verifutil.Seed(), NNodes: 2, NIdent: 12, NAccounts: 4})
	defer w.Cleanup()
	if err := w.Prologue(); err != nil {
		t.Fatal(err)
	}
	r := verifutil.Stream(1)
	t0 := time.Now()
	for i := 0; i < 400; i++ {
		for k := 0; k < r.Intn(6); k++ {
			if g := w.RandomTx(r, 25); g != nil && g.Tx != nil {
				err := w.Submit(g.Tx)
				w.Stats["submit_"+g.Kind]++
				if err == nil {
					w.Stats["accepted_"+g.Kind]++
				}
			}
		}
		w.Tick(time.Duration(r.Range(10, 40)) * time.Second)
		res := w.NextBlock(10)
		for n, e := range res.Errs {
			t.Fatalf("block %d: replica %s: %v", i, n, e)
		}
		rep.Eval(1)
		if f := res.Block.Header.Flags(); f != 0 {
			fmt.Printf("h=%d flags=%b period=%d txs=%d time=%d nvt=%d\n", res.Block.Height(), f, w.View().AppState.State.ValidationPeriod(), len(res.Block.Body.Transactions), res.Block.Header.Time(), w.View().AppState.State.NextValidationTime().Unix())
		}
	}
	fmt.Println(w.Stats)
	fmt.Println("elapsed", time.Since(t0), "head", w.Replicas[0].Head().Height(), "epoch", w.View().AppState.State.Epoch())
	for k, v := range w.Stats {
		rep.Count(k, v)
	}
	fmt.Println(DigestState(w.Replicas[0].AppState))
	fmt.Println(DigestState(w.Replicas[1].AppState))
}
