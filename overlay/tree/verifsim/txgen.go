package verifsim

import (
	"fmt"
	"math/big"

	"github.com/idena-network/idena-go/blockchain/attachments"
	"github.com/idena-network/idena-go/blockchain/fee"
	"github.com/idena-network/idena-go/blockchain/types"
	"github.com/idena-network/idena-go/common"
	"github.com/idena-network/idena-go/core/state"
	"github.com/idena-network/idena-go/crypto"
	"github.com/idena-network/idena-go/verifutil"
	"github.com/idena-network/idena-go/vm/embedded"
	"github.com/ipfs/go-cid"
	"github.com/multiformats/go-multihash"
)

var TxTypeNames = map[types.TxType]string{
	types.SendTx: "Send", types.ActivationTx: "Activation", types.InviteTx: "Invite", types.KillTx: "Kill",
	types.SubmitFlipTx: "SubmitFlip", types.SubmitAnswersHashTx: "AnswersHash", types.SubmitShortAnswersTx: "ShortAnswers",
	types.SubmitLongAnswersTx: "LongAnswers", types.EvidenceTx: "Evidence", types.OnlineStatusTx: "OnlineStatus",
	types.KillInviteeTx: "KillInvitee", types.ChangeGodAddressTx: "ChangeGod", types.BurnTx: "Burn",
	types.ChangeProfileTx: "ChangeProfile", types.DeleteFlipTx: "DeleteFlip", types.DeployContractTx: "Deploy",
	types.CallContractTx: "Call", types.TerminateContractTx: "Terminate", types.DelegateTx: "Delegate",
	types.UndelegateTx: "Undelegate", types.KillDelegatorTx: "KillDelegator", types.StoreToIpfsTx: "StoreToIpfs",
	types.ReplenishStakeTx: "ReplenishStake",
}

func TxName(t types.TxType) string {
	if n, ok := TxTypeNames[t]; ok {
		return n
	}
	return "Type?"
}

// View is the canonical head state of replica 0 (read-only use by the generator).
func (w *World) View() *Replica {
	if w.ViewOverride != nil {
		return w.ViewOverride
	}
	return w.Replicas[0]
}

// SignedTx assembles and signs a transaction exactly as given (no defaults).
func SignedTx(from *Actor, t types.TxType, to *common.Address, amount, maxFee, tips *big.Int, nonce uint32, epoch uint16, payload []byte) *types.Transaction {
	tx := &types.Transaction{AccountNonce: nonce, Epoch: epoch, Type: t, To: to, Amount: amount, MaxFee: maxFee, Tips: tips, Payload: payload}
	s, err := types.SignTx(tx, from.Key)
	if err != nil {
		panic(err)
	}
	return s
}

// NextNonce is the next usable nonce of a (taking replica 0's pool into account).
func (w *World) NextNonce(a *Actor) uint32 {
	v := w.View()
	return v.AppState.NonceCache.GetNonce(a.Addr, v.AppState.State.Epoch()) + 1
}

// StateNonce is the next nonce according to the committed state only.
func (w *World) StateNonce(a *Actor) uint32 {
	st := w.View().AppState.State
	if st.GetEpoch(a.Addr) < st.Epoch() {
		return 1
	}
	return st.GetNonce(a.Addr) + 1
}

// FeeFor returns the fee the chain will charge for tx at the current head (excluding gas).
func (w *World) FeeFor(tx *types.Transaction) *big.Int {
	v := w.View()
	return fee.CalculateFee(v.AppState.ValidatorsCache.NetworkSize(), v.AppState.State.FeePerGas(), tx)
}

// Tx builds a well-formed tx of a type with sane nonce/epoch/maxFee defaults.
func (w *World) Tx(from *Actor, t types.TxType, to *common.Address, amount *big.Int, payload []byte) *types.Transaction {
	return w.TxGas(from, t, to, amount, payload, 0)
}

// TxGas is Tx with an additional gas budget (contract txs).
func (w *World) TxGas(from *Actor, t types.TxType, to *common.Address, amount *big.Int, payload []byte, gas int64) *types.Transaction {
	v := w.View()
	ep := v.AppState.State.Epoch()
	probe := &types.Transaction{AccountNonce: w.NextNonce(from), Epoch: ep, Type: t, To: to, Amount: amount, Payload: payload, MaxFee: Dna(1)}
	f := w.FeeFor(probe)
	// leave head-room for the fee rate moving up a few blocks (x2) plus the minimal-fee rule
	minFee := fee.CalculateFee(v.AppState.ValidatorsCache.NetworkSize(), fee.GetFeePerGasForNetwork(v.AppState.ValidatorsCache.NetworkSize()), probe)
	maxFee := new(big.Int).Mul(f, big.NewInt(3))
	if maxFee.Cmp(minFee) < 0 {
		maxFee.Set(minFee)
	}
	maxFee.Add(maxFee, big.NewInt(1000))
	if gas > 0 {
		maxFee.Add(maxFee, new(big.Int).Mul(v.AppState.State.FeePerGas(), big.NewInt(gas)))
	}
	return SignedTx(from, t, to, amount, maxFee, nil, probe.AccountNonce, ep, payload)
}

func FakeCid(r *verifutil.Rng) []byte {
	pref := cid.Prefix{Codec: cid.Raw, MhLength: -1, MhType: multihash.SHA2_256, Version: 1}
	c, _ := pref.Sum(r.Bytes(24))
	return c.Bytes()
}

// identity helpers on the canonical view
func (w *World) Identity(a common.Address) state.Identity {
	return w.View().AppState.State.GetIdentity(a)
}
func (w *World) Balance(a common.Address) *big.Int { return w.View().AppState.State.GetBalance(a) }

func (w *World) pickActor(r *verifutil.Rng, pred func(a *Actor, id state.Identity) bool) *Actor {
	l := w.SortedActors()
	off := r.Intn(len(l))
	for i := range l {
		a := l[(i+off)%len(l)]
		if pred == nil || pred(a, w.Identity(a.Addr)) {
			return a
		}
	}
	return nil
}

func (w *World) anyAddr(r *verifutil.Rng) common.Address {
	switch r.Intn(8) {
	case 0:
		return w.God.Addr
	case 1:
		return common.Address{}
	case 2:
		var a common.Address
		copy(a[:], r.Bytes(20))
		return a
	default:
		return w.pickActor(r, nil).Addr
	}
}

// Gen describes one generated transaction for logs / evidence.
type Gen struct {
	Tx      *types.Transaction
	Kind    string // intent label e.g. "Send/ok", "Send/overdraft"
	Hostile bool
}

// RandomTx draws one transaction intent from the weighted menu. Roughly hostilePct percent
// of the draws are deliberately malformed or stale variants of the well-formed intent.
func (w *World) RandomTx(r *verifutil.Rng, hostilePct int) *Gen {
	v := w.View()
	st := v.AppState.State
	vc := v.AppState.ValidatorsCache
	ep := st.Epoch()
	hostile := r.Intn(100) < hostilePct
	funded := func(a *Actor, _ state.Identity) bool { return st.GetBalance(a.Addr).Cmp(Dna(2)) > 0 }
	g := &Gen{Hostile: hostile}
	mk := func(kind string, tx *types.Transaction) *Gen {
		g.Kind, g.Tx = kind, tx
		if hostile && tx != nil {
			w.corrupt(r, g)
		}
		return g
	}
	switch r.Pick(30, 6, 8, 3, 6, 8, 3, 2, 4, 3, 3, 6, 5, 3, 3, 5, 4, 4, 4) {
	case 0: // send
		from := w.pickActor(r, funded)
		if from == nil {
			return nil
		}
		to := w.anyAddr(r)
		bal := st.GetBalance(from.Addr)
		amt := new(big.Int).Div(bal, big.NewInt(int64(r.Range(2, 50))))
		return mk("Send", w.Tx(from, types.SendTx, &to, amt, nil))
	case 1: // online / offline toggle
		from := w.pickActor(r, func(a *Actor, id state.Identity) bool {
			// Nodes[0] stays online for the whole scenario so that proposed blocks keep coming
			return (vc.IsValidated(a.Addr) || vc.IsPool(a.Addr)) && id.Delegatee() == nil && !(len(w.Nodes) > 0 && a == w.Nodes[0])
		})
		if from == nil {
			return nil
		}
		online := !vc.IsOnlineIdentity(from.Addr)
		if st.HasStatusSwitchAddresses(from.Addr) {
			online = !online
		}
		if r.Intn(10) == 0 {
			online = !online
		}
		return mk("OnlineStatus", w.Tx(from, types.OnlineStatusTx, nil, nil, attachments.CreateOnlineStatusAttachment(online)))
	case 2: // invite
		from := w.pickActor(r, func(a *Actor, id state.Identity) bool { return id.Invites > 0 || a == w.God })
		if from == nil {
			return nil
		}
		inv := w.AddActor("inv", len(w.ByAddr))
		return mk("Invite", w.Tx(from, types.InviteTx, &inv.Addr, Dna(int64(r.Range(0, 3))), nil))
	case 3: // activation of an invite (by the invite key) to a fresh or same address
		from := w.pickActor(r, func(a *Actor, id state.Identity) bool { return id.State == state.Invite })
		if from == nil {
			return nil
		}
		dst := from
		if r.Bool() {
			dst = w.AddActor("cand", len(w.ByAddr))
		}
		return mk("Activation", w.Tx(from, types.ActivationTx, &dst.Addr, nil, dst.Pub))
	case 4: // kill self
		from := w.pickActor(r, func(a *Actor, id state.Identity) bool {
			return a != w.God && len(w.Nodes) > 0 && a != w.Nodes[0] && (id.State == state.Verified || id.State == state.Human || id.State == state.Suspended || id.State == state.Zombie)
		})
		if from == nil || r.Intn(3) != 0 {
			return nil
		}
		return mk("Kill", w.Tx(from, types.KillTx, nil, nil, nil))
	case 5: // delegate
		from := w.pickActor(r, func(a *Actor, id state.Identity) bool {
			return a != w.God && !isNode(w, a) && id.State != state.Undefined && id.State != state.Killed && id.Delegatee() == nil && !vc.IsPool(a.Addr)
		})
		if from == nil {
			return nil
		}
		var to common.Address
		if r.Intn(4) == 0 {
			to = w.anyAddr(r)
		} else {
			// prefer existing pools / a few fixed pool owners so that pools grow
			p := w.SortedActors()
			to = p[r.Intn(minInt(len(p), 6))].Addr
		}
		return mk("Delegate", w.Tx(from, types.DelegateTx, &to, nil, nil))
	case 6: // undelegate
		from := w.pickActor(r, func(a *Actor, id state.Identity) bool {
			return id.Delegatee() != nil || st.DelegationSwitch(a.Addr) != nil
		})
		if from == nil {
			return nil
		}
		return mk("Undelegate", w.Tx(from, types.UndelegateTx, nil, nil, nil))
	case 7: // kill delegator (by pool)
		var pool *Actor
		var target common.Address
		for _, a := range w.SortedActors() {
			aid := w.Identity(a.Addr)
			if d := aid.Delegatee(); d != nil {
				if p, ok := w.ByAddr[*d]; ok {
					pool, target = p, a.Addr
					if r.Bool() {
						break
					}
				}
			}
		}
		// also: identities whose delegation to a pool is only PENDING (DelegateTx mined, switch not applied yet)
		if pool == nil || r.Intn(3) == 0 {
			for _, a := range w.SortedActors() {
				if ds := st.DelegationSwitch(a.Addr); ds != nil && !ds.Delegatee.IsEmpty() {
					if p, ok := w.ByAddr[ds.Delegatee]; ok {
						pool, target = p, a.Addr
						if r.Bool() {
							break
						}
					}
				}
			}
		}
		if pool == nil {
			return nil
		}
		return mk("KillDelegator", w.Tx(pool, types.KillDelegatorTx, &target, nil, nil))
	case 8: // kill invitee
		var inviter *Actor
		var target common.Address
		for _, a := range w.SortedActors() {
			id := w.Identity(a.Addr)
			if id.Inviter != nil && (id.State == state.Invite || id.State == state.Candidate) {
				if p, ok := w.ByAddr[id.Inviter.Address]; ok {
					inviter, target = p, a.Addr
					if r.Bool() {
						break
					}
				}
			}
		}
		if inviter == nil {
			return nil
		}
		return mk("KillInvitee", w.Tx(inviter, types.KillInviteeTx, &target, nil, nil))
	case 9: // burn
		from := w.pickActor(r, funded)
		if from == nil {
			return nil
		}
		amt := new(big.Int).Div(st.GetBalance(from.Addr), big.NewInt(int64(r.Range(20, 200))))
		return mk("Burn", w.Tx(from, types.BurnTx, nil, amt, attachments.CreateBurnAttachment("key"+string(rune('a'+r.Intn(4))))))
	case 10: // change profile
		from := w.pickActor(r, funded)
		if from == nil {
			return nil
		}
		return mk("ChangeProfile", w.Tx(from, types.ChangeProfileTx, nil, nil, attachments.CreateChangeProfileAttachment(FakeCid(r))))
	case 11: // submit flip
		from := w.pickActor(r, func(a *Actor, id state.Identity) bool {
			return id.State >= state.Candidate && id.State != state.Killed && int(id.GetMaximumAvailableFlips()) > len(id.Flips)
		})
		if from == nil {
			return nil
		}
		id := w.Identity(from.Addr)
		pair := uint8(r.Intn(maxInt(1, id.GetTotalWordPairsCount())))
		return mk("SubmitFlip", w.Tx(from, types.SubmitFlipTx, nil, nil, attachments.CreateFlipSubmitAttachment(FakeCid(r), pair)))
	case 12: // replenish stake
		from := w.pickActor(r, funded)
		if from == nil {
			return nil
		}
		to := w.pickActor(r, func(a *Actor, id state.Identity) bool { return id.State != state.Undefined && id.State != state.Killed })
		if to == nil {
			return nil
		}
		amt := new(big.Int).Div(st.GetBalance(from.Addr), big.NewInt(int64(r.Range(3, 40))))
		return mk("ReplenishStake", w.Tx(from, types.ReplenishStakeTx, &to.Addr, amt, nil))
	case 13: // delete flip
		from := w.pickActor(r, func(a *Actor, id state.Identity) bool { return len(id.Flips) > 0 })
		if from == nil {
			return nil
		}
		fl := w.Identity(from.Addr).Flips
		return mk("DeleteFlip", w.Tx(from, types.DeleteFlipTx, nil, nil, attachments.CreateDeleteFlipAttachment(fl[r.Intn(len(fl))].Cid)))
	case 14: // store to ipfs
		from := w.pickActor(r, funded)
		if from == nil {
			return nil
		}
		return mk("StoreToIpfs", w.Tx(from, types.StoreToIpfsTx, nil, nil, attachments.CreateStoreToIpfsAttachment(FakeCid(r), uint32(r.Range(1, 4000)))))
	case 15: // deploy a simple embedded contract
		from := w.pickActor(r, func(a *Actor, _ state.Identity) bool { return st.GetBalance(a.Addr).Cmp(Dna(200)) > 0 })
		if from == nil {
			return nil
		}
		minStake := new(big.Int).Mul(st.FeePerGas(), big.NewInt(3000000))
		amt := new(big.Int).Add(minStake, big.NewInt(int64(r.Intn(1000))))
		var att *attachments.DeployContractAttachment
		if r.Bool() {
			att = attachments.CreateDeployContractAttachment(embedded.TimeLockContract, nil, nil, common.ToBytes(uint64(w.Now().Unix()+int64(r.Range(-100, 400)))))
		} else {
			mx := byte(r.Range(1, 3))
			att = attachments.CreateDeployContractAttachment(embedded.MultisigContract, nil, nil, []byte{mx}, []byte{byte(r.Range(1, int(mx)))})
		}
		pl, _ := att.ToBytes()
		tx := w.TxGas(from, types.DeployContractTx, nil, amt, pl, 3000)
		w.rememberContract(from, tx)
		return mk("Deploy", tx)
	case 16: // call a known contract
		c := w.knownContract(r)
		if c == nil {
			return nil
		}
		from := c.Owner
		if r.Intn(4) == 0 {
			from = w.pickActor(r, funded)
			if from == nil {
				return nil
			}
		}
		dest := w.anyAddr(r)
		selfDest := r.Intn(5) == 0
		if selfDest {
			dest = c.Addr // the contract is asked to pay itself
		}
		var att *attachments.CallContractAttachment
		switch r.Intn(4) {
		case 0:
			att = attachments.CreateCallContractAttachment("transfer", dest.Bytes(), Dna(int64(r.Range(0, 3))).Bytes())
		case 1:
			att = attachments.CreateCallContractAttachment("add", dest.Bytes())
		case 2:
			att = attachments.CreateCallContractAttachment("send", dest.Bytes(), Dna(1).Bytes())
		default:
			att = attachments.CreateCallContractAttachment("push", dest.Bytes(), Dna(1).Bytes())
		}
		pl, _ := att.ToBytes()
		if selfDest {
			return mk("Call/dest=the-contract-itself", w.TxGas(from, types.CallContractTx, &c.Addr, Dna(int64(r.Range(0, 5))), pl, 3000))
		}
		return mk("Call", w.TxGas(from, types.CallContractTx, &c.Addr, Dna(int64(r.Range(0, 5))), pl, 3000))
	case 17: // terminate
		c := w.knownContract(r)
		if c == nil || r.Intn(3) != 0 {
			return nil
		}
		att := attachments.CreateTerminateContractAttachment(c.Owner.Addr.Bytes())
		pl, _ := att.ToBytes()
		return mk("Terminate", w.TxGas(c.Owner, types.TerminateContractTx, &c.Addr, nil, pl, 3000))
	case 18: // change god address (rare, and back)
		if r.Intn(6) != 0 {
			return nil
		}
		cur, ok := w.ByAddr[st.GodAddress()]
		if !ok {
			return nil
		}
		to := w.God.Addr
		if cur == w.God {
			to = w.pickActor(r, nil).Addr
		}
		return mk("ChangeGod", w.Tx(cur, types.ChangeGodAddressTx, &to, nil, nil))
	}
	_ = ep
	return nil
}

func isNode(w *World, a *Actor) bool {
	for _, n := range w.Nodes {
		if n == a {
			return true
		}
	}
	return false
}

func minInt(a, b int) int {
	if a < b {
		return a
	}
	return b
}
func maxInt(a, b int) int {
	if a > b {
		return a
	}
	return b
}

// corrupt turns a well-formed intent into a hostile variant (re-signed, so that it reaches
// the validators): wrong nonce/epoch, overdraft, fee on/below the boundary, wrong target…
func (w *World) corrupt(r *verifutil.Rng, g *Gen) {
	tx := g.Tx
	from := w.ByAddr[senderOf(tx)]
	if from == nil {
		return
	}
	c := *tx
	c.Signature = nil
	st := w.View().AppState.State
	switch r.Intn(12) {
	case 0:
		c.AccountNonce += uint32(r.Range(1, 3))
		g.Kind += "/future-nonce"
	case 1:
		if c.AccountNonce > 1 {
			c.AccountNonce -= 1
		}
		g.Kind += "/stale-nonce"
	case 2:
		c.Epoch += uint16(r.Range(1, 2))
		g.Kind += "/future-epoch"
	case 3:
		if c.Epoch > 0 {
			c.Epoch--
		}
		g.Kind += "/past-epoch"
	case 4:
		c.Amount = new(big.Int).Add(st.GetBalance(from.Addr), Dna(int64(r.Range(1, 1000000))))
		g.Kind += "/overdraft"
	case 5:
		c.MaxFee = w.FeeFor(&c)
		g.Kind += "/maxfee-exact"
	case 6:
		c.MaxFee = new(big.Int).Sub(w.FeeFor(&c), big.NewInt(1))
		if c.MaxFee.Sign() < 0 {
			c.MaxFee = big.NewInt(0)
		}
		g.Kind += "/maxfee-below"
	case 7:
		c.Tips = new(big.Int).Div(st.GetBalance(from.Addr), big.NewInt(int64(r.Range(1, 4))))
		g.Kind += "/big-tips"
	case 8:
		a := w.anyAddr(r)
		c.To = &a
		g.Kind += "/other-target"
	case 9:
		c.To = nil
		g.Kind += "/nil-target"
	case 10:
		c.Payload = r.Bytes(r.Intn(40))
		g.Kind += "/garbage-payload"
	case 11:
		// spend everything incl. what the fee needs
		c.Amount = new(big.Int).Set(st.GetBalance(from.Addr))
		g.Kind += "/all-balance"
	}
	s, err := types.SignTx(&c, from.Key)
	if err == nil {
		g.Tx = s
	}
}

func senderOf(tx *types.Transaction) common.Address {
	a, _ := types.Sender(tx)
	return a
}

// ------------------------------------------------------------------ contracts bookkeeping

type KnownContract struct {
	Addr  common.Address
	Owner *Actor
	Kind  string
}

var contractsByWorld = map[*World][]*KnownContract{}

func (w *World) rememberContract(owner *Actor, deployTx *types.Transaction) {
	// embedded contract address = hash(sender, epoch, nonce), as vm.ContractAddr computes it
	addr := ContractAddr(owner.Addr, deployTx)
	contractsByWorld[w] = append(contractsByWorld[w], &KnownContract{Addr: addr, Owner: owner})
}

func ContractAddr(sender common.Address, tx *types.Transaction) common.Address {
	hash := crypto.Hash(append(append(sender.Bytes(), common.ToBytes(tx.Epoch)...), common.ToBytes(tx.AccountNonce)...))
	var result common.Address
	result.SetBytes(hash[:])
	return result
}

func (w *World) knownContract(r *verifutil.Rng) *KnownContract {
	l := contractsByWorld[w]
	st := w.View().AppState.State
	var live []*KnownContract
	for _, c := range l {
		if st.GetCodeHash(c.Addr) != nil {
			live = append(live, c)
		}
	}
	if len(live) == 0 {
		return nil
	}
	return live[r.Intn(len(live))]
}

// Burst generates 2-4 transactions of ONE sender with consecutive nonces whose validity
// depends on each other when applied in sequence (each passes pool admission on its own,
// because the pool validates against the head state).
func (w *World) Burst(r *verifutil.Rng) []*Gen {
	v := w.View()
	st := v.AppState.State
	vc := v.AppState.ValidatorsCache
	from := w.pickActor(r, func(a *Actor, id state.Identity) bool {
		return a != w.God && !(len(w.Nodes) > 0 && a == w.Nodes[0]) && st.GetBalance(a.Addr).Cmp(Dna(5)) > 0
	})
	if from == nil {
		return nil
	}
	ep := st.Epoch()
	nonce := w.NextNonce(from)
	n := r.Range(2, 4)
	var out []*Gen
	fresh := func() common.Address {
		var a common.Address
		copy(a[:], r.Bytes(20))
		return a
	}
	someone := func() common.Address { return w.pickActor(r, nil).Addr }
	bal := st.GetBalance(from.Addr)
	// pattern: tx n spends most of the balance, tx n+1 (admitted by the pool against the head
	// state) is then under-funded in the block, tx n+2 names a fresh address through a
	// validator that reads it with a creating accessor and is skipped on the nonce gap
	pattern := r.Intn(4) == 0
	if pattern {
		n = 3
	}
	for i := 0; i < n; i++ {
		var t types.TxType
		var to *common.Address
		var amount *big.Int
		var payload []byte
		kind := ""
		addr := func(a common.Address) *common.Address { return &a }
		sel := r.Intn(14)
		if pattern {
			sel = []int{4, 4, []int{1, 8, 9}[r.Intn(3)]}[i]
		}
		switch sel {
		case 0:
			t, to, kind = types.DelegateTx, addr(someone()), "Delegate"
		case 1:
			t, to, kind = types.DelegateTx, addr(fresh()), "Delegate/fresh"
		case 2:
			t, kind = types.UndelegateTx, "Undelegate"
		case 3:
			t, kind = types.KillTx, "Kill"
		case 4:
			t, to, amount, kind = types.SendTx, addr(someone()), new(big.Int).Div(new(big.Int).Mul(bal, big.NewInt(int64(r.Range(55, 95)))), big.NewInt(100)), "Send/most"
		case 5:
			t, to, amount, kind = types.SendTx, addr(fresh()), new(big.Int).Div(bal, big.NewInt(int64(r.Range(2, 9)))), "Send"
		case 6:
			on := !vc.IsOnlineIdentity(from.Addr)
			if r.Bool() {
				on = !on
			}
			t, payload, kind = types.OnlineStatusTx, attachments.CreateOnlineStatusAttachment(on), "OnlineStatus"
		case 7:
			t, to, amount, kind = types.ReplenishStakeTx, addr(someone()), new(big.Int).Div(bal, big.NewInt(int64(r.Range(2, 9)))), "ReplenishStake"
		case 8:
			t, to, kind = types.KillDelegatorTx, addr(fresh()), "KillDelegator/fresh"
		case 9:
			t, to, kind = types.KillInviteeTx, addr(fresh()), "KillInvitee/fresh"
		case 10:
			t, to, amount, kind = types.InviteTx, addr(fresh()), Dna(1), "Invite"
		case 11:
			t, amount, payload, kind = types.BurnTx, new(big.Int).Div(bal, big.NewInt(int64(r.Range(3, 30)))), attachments.CreateBurnAttachment("k"), "Burn"
		case 12:
			t, payload, kind = types.SubmitFlipTx, attachments.CreateFlipSubmitAttachment(FakeCid(r), uint8(r.Intn(3))), "SubmitFlip"
		case 13:
			t, payload, kind = types.ChangeProfileTx, attachments.CreateChangeProfileAttachment(FakeCid(r)), "ChangeProfile"
		}
		probe := &types.Transaction{AccountNonce: nonce, Epoch: ep, Type: t, To: to, Amount: amount, Payload: payload, MaxFee: Dna(1)}
		f := w.FeeFor(probe)
		minFee := fee.CalculateFee(vc.NetworkSize(), fee.GetFeePerGasForNetwork(vc.NetworkSize()), probe)
		maxFee := new(big.Int).Mul(f, big.NewInt(3))
		if maxFee.Cmp(minFee) < 0 {
			maxFee.Set(minFee)
		}
		maxFee.Add(maxFee, big.NewInt(1000))
		out = append(out, &Gen{Tx: SignedTx(from, t, to, amount, maxFee, nil, nonce, ep, payload), Kind: "burst:" + kind})
		nonce++
	}
	return out
}

// FatTxs generates a few transactions with large payloads (hundreds of KB) from rich senders,
// so that the block gas cap - and upgrade 10's "one tx may overflow" rule - is reached from
// both sides when the proposer builds a block.
func (w *World) FatTxs(r *verifutil.Rng) []*Gen {
	v := w.View()
	st := v.AppState.State
	var out []*Gen
	n := r.Range(2, 6)
	used := map[common.Address]uint32{}
	for i := 0; i < n; i++ {
		from := w.pickActor(r, func(a *Actor, _ state.Identity) bool { return st.GetBalance(a.Addr).Cmp(Dna(3000)) > 0 })
		if from == nil {
			break
		}
		size := []int{40000, 120000, 250000, 400000}[r.Intn(4)] + r.Intn(5000)
		payload := make([]byte, size)
		copy(payload, r.Bytes(64))
		to := w.anyAddr(r)
		nonce := w.NextNonce(from) + used[from.Addr]
		used[from.Addr]++
		probe := &types.Transaction{AccountNonce: nonce, Epoch: st.Epoch(), Type: types.SendTx, To: &to, Amount: Dna(1), Payload: payload, MaxFee: Dna(1)}
		f := w.FeeFor(probe)
		minFee := fee.CalculateFee(v.AppState.ValidatorsCache.NetworkSize(), fee.GetFeePerGasForNetwork(v.AppState.ValidatorsCache.NetworkSize()), probe)
		maxFee := new(big.Int).Mul(f, big.NewInt(2))
		if maxFee.Cmp(minFee) < 0 {
			maxFee.Set(minFee)
		}
		maxFee.Add(maxFee, big.NewInt(1000))
		if st.GetBalance(from.Addr).Cmp(new(big.Int).Add(maxFee, Dna(2))) < 0 {
			continue
		}
		out = append(out, &Gen{Tx: SignedTx(from, types.SendTx, &to, Dna(1), maxFee, nil, nonce, st.Epoch(), payload), Kind: "fat:Send"})
	}
	return out
}

// ExactCapTxs builds three transactions of ONE sender with consecutive nonces such that the
// cumulative block gas (tx gas + contract VM gas) lands EXACTLY on the block gas cap after
// the second one and a third still follows: a fat SendTx whose payload length is tuned, a
// contract call whose VM gas is measured beforehand with a twin block, and a small SendTx.
func (w *World) ExactCapTxs(r *verifutil.Rng, twin *Replica) []*Gen {
	v := w.View()
	st := v.AppState.State
	c := w.knownContract(r)
	from := w.ByAddr[st.GodAddress()]
	if from == nil || st.GetBalance(from.Addr).Cmp(Dna(20000)) < 0 {
		w.Stats["exactcap_skip_no_funds"]++
		return nil
	}
	maxGas := int(types.MaxBlockSize(true))
	nonce := w.StateNonce(from) // the directed proposer's pool holds nothing else
	ep := st.Epoch()
	dest := w.anyAddr(r)
	type cand struct {
		name    string
		t       types.TxType
		to      *common.Address
		amount  *big.Int
		payload []byte
	}
	var cands []cand
	minStake := new(big.Int).Mul(st.FeePerGas(), big.NewInt(3000000))
	dep := func(name string, a *attachments.DeployContractAttachment) {
		pl, _ := a.ToBytes()
		cands = append(cands, cand{name, types.DeployContractTx, nil, new(big.Int).Add(minStake, big.NewInt(int64(r.Intn(1000)))), pl})
	}
	call := func(a *attachments.CallContractAttachment) {
		pl, _ := a.ToBytes()
		cands = append(cands, cand{"call:" + a.Method, types.CallContractTx, &c.Addr, nil, pl})
	}
	// deployments burn enough VM gas for a further tx to fit under the pool's tx-gas-only cap
	dep("deploy:TimeLock", attachments.CreateDeployContractAttachment(embedded.TimeLockContract, nil, nil, common.ToBytes(uint64(w.Now().Unix()+100))))
	dep("deploy:Multisig", attachments.CreateDeployContractAttachment(embedded.MultisigContract, nil, nil, []byte{3}, []byte{2}))
	dep("deploy:Multisig1", attachments.CreateDeployContractAttachment(embedded.MultisigContract, nil, nil, []byte{1}, []byte{1}))
	dep("deploy:TimeLock-long", attachments.CreateDeployContractAttachment(embedded.TimeLockContract, nil, nil, common.ToBytes(uint64(w.Now().Unix()+100)), r.Bytes(5)))
	if c != nil {
		call(attachments.CreateCallContractAttachment("transfer", dest.Bytes(), Dna(1).Bytes()))
		call(attachments.CreateCallContractAttachment("add", dest.Bytes()))
		call(attachments.CreateCallContractAttachment("push", dest.Bytes(), Dna(1).Bytes()))
	}
	feeRate := st.FeePerGas()
	budget := func(gas int) *big.Int {
		return new(big.Int).Add(new(big.Int).Mul(feeRate, big.NewInt(int64(gas)*3)), Dna(1))
	}
	tailGas := fee.CalculateGas(SignedTx(from, types.SendTx, &dest, Dna(1), budget(3000), nil, nonce+2, ep, nil))
	for _, cd := range cands {
		// measure: the contract tx alone, as the first tx of the sender
		probe := SignedTx(from, cd.t, cd.to, cd.amount, budget(60000), nil, nonce, ep, cd.payload)
		tr, err := w.Twin(twin, probe, false)
		if err != nil || tr == nil || !tr.Included || len(tr.Receipts) != 1 {
			w.Stats["exactcap_probe_not_included"]++
			continue
		}
		vm := int(tr.Receipts[0].GasUsed)
		t2 := SignedTx(from, cd.t, cd.to, cd.amount, budget(60000), nil, nonce+1, ep, cd.payload)
		g2 := fee.CalculateGas(t2)
		target := maxGas - g2 - vm
		if target%10 != 0 || target < 200000 || vm < tailGas {
			w.Stats["exactcap_unusable:"+cd.name+fmt.Sprintf(":vm=%d", vm)]++
			continue
		}
		// tune the payload length of the fat tx
		L := target/10 - 150
		var t1 *types.Transaction
		for it := 0; it < 8; it++ {
			payload := make([]byte, L)
			// MaxFee may not buy more gas than a block holds (TooHighMaxFee): exactly the fee + a little
			t1 = SignedTx(from, types.SendTx, &dest, Dna(1), new(big.Int).Add(new(big.Int).Mul(feeRate, big.NewInt(int64(target))), big.NewInt(1000)), nil, nonce, ep, payload)
			d := target - fee.CalculateGas(t1)
			if d == 0 {
				break
			}
			L += d / 10
			t1 = nil
			if L < 1 {
				break
			}
		}
		if t1 == nil {
			w.Stats["exactcap_tuning_failed"]++
			continue
		}
		w.Stats["exactcap_built:"+cd.name]++
		t3 := SignedTx(from, types.SendTx, &dest, Dna(1), budget(3000), nil, nonce+2, ep, nil)
		return []*Gen{{Tx: t1, Kind: "exactcap:fat"}, {Tx: t2, Kind: "exactcap:contract"}, {Tx: t3, Kind: "exactcap:tail"}}
	}
	return nil
}

// RelationTxs enumerates kill transactions along the relationships the ledger currently
// holds - stored and only PENDING delegations, invitations - signed by the entitled party
// and by strangers (targeted complement of the random menu).
func (w *World) RelationTxs(r *verifutil.Rng) []*Gen {
	st := w.View().AppState.State
	var out []*Gen
	stranger := func(not ...common.Address) *Actor {
		return w.pickActor(r, func(a *Actor, _ state.Identity) bool {
			for _, n := range not {
				if a.Addr == n {
					return false
				}
			}
			return st.GetBalance(a.Addr).Cmp(Dna(2)) > 0
		})
	}
	for _, a := range w.SortedActors() {
		if len(out) >= 6 {
			break
		}
		id := st.GetIdentity(a.Addr)
		target := a.Addr
		if ds := st.DelegationSwitch(a.Addr); ds != nil && !ds.Delegatee.IsEmpty() && r.Intn(2) == 0 {
			if p, ok := w.ByAddr[ds.Delegatee]; ok {
				out = append(out, &Gen{Tx: w.Tx(p, types.KillDelegatorTx, &target, nil, nil), Kind: "relation:KillDelegator/pending-by-named-pool"})
			}
			if s := stranger(ds.Delegatee, a.Addr); s != nil {
				out = append(out, &Gen{Tx: w.Tx(s, types.KillDelegatorTx, &target, nil, nil), Kind: "relation:KillDelegator/pending-by-stranger"})
			}
		}
		if d := id.Delegatee(); d != nil && r.Intn(4) == 0 {
			if s := stranger(*d, a.Addr); s != nil {
				out = append(out, &Gen{Tx: w.Tx(s, types.KillDelegatorTx, &target, nil, nil), Kind: "relation:KillDelegator/by-stranger"})
			}
		}
		if id.Inviter != nil && (id.State == state.Invite || id.State == state.Candidate) && r.Intn(3) == 0 {
			if s := stranger(id.Inviter.Address, a.Addr); s != nil {
				out = append(out, &Gen{Tx: w.Tx(s, types.KillInviteeTx, &target, nil, nil), Kind: "relation:KillInvitee/by-stranger"})
			}
		}
		if id.Inviter == nil && (id.State == state.Invite || id.State == state.Candidate) && r.Intn(2) == 0 {
			if s := stranger(a.Addr); s != nil {
				out = append(out, &Gen{Tx: w.Tx(s, types.KillInviteeTx, &target, nil, nil), Kind: "relation:KillInvitee/orphan-by-stranger"})
			}
		}
	}
	return out
}

// WasmDeployTx deploys a never-seen WASM code: the hand-assembled spender module (needs no debug imports) followed by a custom
// section with random bytes (a valid module with a fresh code hash).
func (w *World) WasmDeployTx(r *verifutil.Rng, from *Actor) *types.Transaction {
	code := append([]byte{}, c15WasmCode[kSpender]...)
	name := []byte("vrfy")
	junk := r.Bytes(8)
	code = append(code, 0x00, byte(1+len(name)+len(junk)), byte(len(name)))
	code = append(code, name...)
	code = append(code, junk...)
	att := attachments.CreateDeployContractAttachment(common.Hash{}, code, r.Bytes(4))
	pl, _ := att.ToBytes()
	return w.TxGas(from, types.DeployContractTx, nil, nil, pl, 400000)
}

// SignerOf recovers the signer of tx from its signature with the crypto primitives only (no
// per-object memo, no cache, no validation rule): the address whose key really signed THIS
// content, ok=false if no key did.
func SignerOf(tx *types.Transaction) (common.Address, bool) {
	if len(tx.Signature) == 0 {
		return common.Address{}, false
	}
	h := crypto.SignatureHash(tx)
	pub, err := crypto.Ecrecover(h[:], tx.Signature)
	if err != nil {
		return common.Address{}, false
	}
	a, err := crypto.PubKeyBytesToAddress(pub)
	if err != nil {
		return common.Address{}, false
	}
	return a, true
}

// ForgedSignatureTxs: transactions nobody's key signed that try to spend an existing account -
// (a) other content under the signature bytes copied from a recent tx of the victim, with the
// victim's next nonce; (b) a non-empty signature no key can be recovered from (it resolves to the
// all-zero address, which is a funded account: the zero wallet), with the zero wallet's next nonce.
func (w *World) ForgedSignatureTxs(r *verifutil.Rng) []*Gen {
	st := w.View().AppState.State
	ep := st.Epoch()
	var out []*Gen
	thief := w.AddActor("thief", 0)
	// (a)
	for i := len(w.Blocks) - 1; i >= 0 && i > len(w.Blocks)-12 && len(out) < 2; i-- {
		for _, old := range w.Blocks[i].Body.Transactions {
			v := senderOf(old)
			va, ok := w.ByAddr[v]
			if !ok || st.GetBalance(v).Cmp(Dna(3)) < 0 {
				continue
			}
			amount := new(big.Int).Div(st.GetBalance(v), big.NewInt(int64(r.Range(2, 6))))
			probe := &types.Transaction{AccountNonce: w.StateNonce(va), Epoch: ep, Type: types.SendTx, To: &thief.Addr, Amount: amount, MaxFee: Dna(1)}
			probe.MaxFee = new(big.Int).Add(new(big.Int).Mul(w.FeeFor(probe), big.NewInt(3)), big.NewInt(1000))
			probe.Signature = append([]byte{}, old.Signature...)
			out = append(out, &Gen{Tx: probe, Kind: "forged:signature-bytes-copied-from-a-tx-of-the-victim"})
			break
		}
	}
	// (b)
	zero := common.Address{}
	if bal := st.GetBalance(zero); bal.Cmp(Dna(1)) > 0 {
		nonce := uint32(1)
		if st.GetEpoch(zero) == ep {
			nonce = st.GetNonce(zero) + 1
		}
		for _, v := range []byte{27, 28, 4, 255} {
			tx := &types.Transaction{AccountNonce: nonce, Epoch: ep, Type: types.SendTx, To: &thief.Addr, Amount: new(big.Int).Div(bal, big.NewInt(3)), MaxFee: Dna(1)}
			tx.MaxFee = new(big.Int).Add(new(big.Int).Mul(w.FeeFor(tx), big.NewInt(3)), big.NewInt(1000))
			sig := r.Bytes(65)
			sig[64] = v
			tx.Signature = sig
			if _, ok := SignerOf(tx); ok {
				continue
			}
			out = append(out, &Gen{Tx: tx, Kind: "forged:unrecoverable-signature-spends-the-zero-wallet"})
		}
	}
	return out
}

// DrainThenContractSeqs: [a transfer that leaves the sender just the plain fee of its next tx, a
// contract tx (deploy / call of a known contract) whose max fee is far larger than what is left].
// Each passes pool admission on its own (the pool validates against the head state); in the block
// the second one is not covered any more.
func (w *World) DrainThenContractSeqs(r *verifutil.Rng, max int) [][]*types.Transaction {
	v := w.View()
	st := v.AppState.State
	ns := v.AppState.ValidatorsCache.NetworkSize()
	fpg := st.FeePerGas()
	ep := st.Epoch()
	var out [][]*types.Transaction
	for tries := 0; tries < max*3 && len(out) < max; tries++ {
		from := w.pickActor(r, func(a *Actor, _ state.Identity) bool {
			return a != w.God && !isNode(w, a) && st.GetBalance(a.Addr).Cmp(Dna(40)) > 0 && st.GetCodeHash(a.Addr) == nil
		})
		if from == nil {
			break
		}
		bal := st.GetBalance(from.Addr)
		nonce := w.NextNonce(from)
		// tx2 first (its plain fee decides what tx1 leaves behind)
		var t2 types.TxType
		var to2 *common.Address
		var pl2 []byte
		if c := w.knownContract(r); c != nil && r.Bool() {
			t2 = types.CallContractTx
			a := c.Addr
			to2 = &a
			dest := w.anyAddr(r)
			pl2, _ = attachments.CreateCallContractAttachment("transfer", dest.Bytes(), Dna(1).Bytes()).ToBytes()
		} else if r.Bool() {
			t2 = types.DeployContractTx
			pl2, _ = attachments.CreateDeployContractAttachment(embedded.MultisigContract, nil, nil, []byte{2}, []byte{1}).ToBytes()
		} else {
			// a WASM deployment: the flat deployment charge alone is 30000 gas
			t2 = types.DeployContractTx
			pl2, _ = attachments.CreateDeployContractAttachment(common.Hash{}, c15WasmCode[kSpender], r.Bytes(4)).ToBytes()
		}
		probe2 := &types.Transaction{AccountNonce: nonce + 1, Epoch: ep, Type: t2, To: to2, Payload: pl2, MaxFee: Dna(1)}
		fee2 := fee.CalculateFee(ns, fpg, probe2)
		maxFee2 := new(big.Int).Add(new(big.Int).Mul(fee2, big.NewInt(3)), new(big.Int).Mul(fpg, big.NewInt(int64(r.Range(40000, 90000)))))
		if maxFee2.Cmp(new(big.Int).Div(bal, big.NewInt(2))) > 0 {
			continue
		}
		dst := w.anyAddr(r)
		probe1 := &types.Transaction{AccountNonce: nonce, Epoch: ep, Type: types.SendTx, To: &dst, Amount: bal, MaxFee: Dna(1)}
		fee1 := fee.CalculateFee(ns, fpg, probe1)
		maxFee1 := new(big.Int).Div(new(big.Int).Mul(fee1, big.NewInt(105)), big.NewInt(100))
		slack := new(big.Int).Mul(fpg, big.NewInt(int64(r.Range(1, 400))))
		amount := new(big.Int).Sub(bal, maxFee1)
		amount.Sub(amount, fee2)
		amount.Sub(amount, slack)
		if amount.Sign() <= 0 {
			continue
		}
		tx1 := SignedTx(from, types.SendTx, &dst, amount, maxFee1, nil, nonce, ep, nil)
		tx2 := SignedTx(from, t2, to2, nil, maxFee2, nil, nonce+1, ep, pl2)
		out = append(out, []*types.Transaction{tx1, tx2})
	}
	return out
}
