package verifsim

// C15 — a contract call must never take the node down. The generated traffic of c15_test.go found that the
// process dies with the Go runtime's "fatal error: invalid pointer found on stack" inside a WASM execution:
// the Rust runtime hands an EMPTY byte string to the exported Go host callbacks (idena-wasm-binding
// lib/callbacks.go, parameters of type C.U8SliceView) as ptr = 0x1 (Rust's dangling pointer of an empty slice),
// len = 0. The field is pointer-typed on the Go side, so when the goroutine's stack has to grow while such a
// callback frame is live (the callbacks copy their arguments with C.GoBytes, compute hashes, ...) the stack
// copier finds 0x1 in a pointer slot and throws - a fatal error no recover() catches. Whether the stack has to
// grow at that moment depends on how deep the caller is, which a node does not control.
//
// This job reproduces the event against the real vm/wasm.WasmVM.Run in a CHILD process (the test binary
// re-executed): the deployer module (c15_contracts.go) is deployed, then `make(code, args, nonce, amount, gas)`
// is called from goroutines of every stack depth 0..N - once with an EMPTY packed-argument string (the host's
// create_deploy_contract_promise passes it on to the contract_addr callback) and once, as the control, with the
// 1-byte string that encodes "no arguments". Both calls are legal transactions anybody can send; the only
// acceptable outcomes are a receipt that says success or failure.

import (
	"fmt"
	"math/big"
	"os"
	"os/exec"
	"regexp"
	"strings"
	"testing"

	"github.com/idena-network/idena-go/blockchain/attachments"
	"github.com/idena-network/idena-go/blockchain/types"
	"github.com/idena-network/idena-go/common"
	"github.com/idena-network/idena-go/common/eventbus"
	"github.com/idena-network/idena-go/config"
	"github.com/idena-network/idena-go/core/appstate"
	"github.com/idena-network/idena-go/crypto"
	"github.com/idena-network/idena-go/log"
	"github.com/idena-network/idena-go/verifutil"
	"github.com/idena-network/idena-go/vm/wasm"
	wasmlib "github.com/idena-network/idena-wasm-binding/lib"
	dbm "github.com/tendermint/tm-db"
)

const c15CrashChildEnv = "C15_EMPTY_SLICE_CHILD"
const c15CrashDepths = 1200

//go:noinline
func c15Deep(n int, f func()) byte {
	var buf [48]byte
	buf[n%48] = byte(n)
	if n == 0 {
		f()
		return buf[0]
	}
	return c15Deep(n-1, f) + buf[n%48]
}

// c15CrashChild runs in the re-executed test binary: it prints "depth <n>" before every call and
// "survived <calls> ok=<n> failed=<n>" at the end.
func c15CrashChild(variant string) {
	log.Root().SetHandler(log.DiscardHandler())
	as, _ := appstate.NewAppState(dbm.NewMemDB(), eventbus.New())
	as.Initialize(0)
	cfg := &config.Config{Consensus: config.ConsensusVersions[config.ConsensusV12]}
	key, _ := crypto.ToECDSA(crypto.Keccak256([]byte("c15-empty-slice")))
	hdr := &types.Header{ProposedHeader: &types.ProposedHeader{Height: 1, Time: 1}}
	nonce := uint32(1)
	run := func(tx *types.Transaction) *types.TxReceipt {
		tx.AccountNonce = nonce
		nonce++
		tx, _ = types.SignTx(tx, key)
		return wasm.NewWasmVM(as, nil, hdr, cfg, true, nil).Run(tx, 600000000)
	}
	datt := attachments.CreateDeployContractAttachment(common.Hash{}, c15WasmCode[kDeployer], []byte{1})
	dpl, _ := datt.ToBytes()
	drc := run(&types.Transaction{Type: types.DeployContractTx, Payload: dpl, Amount: big.NewInt(0)})
	if !drc.Success {
		fmt.Fprintf(os.Stderr, "setup-failed: deployer not deployed: %v\n", drc.Error)
		os.Exit(3)
	}
	as.Commit(nil)
	deployer := drc.ContractAddress
	packed := wasmlib.PackArguments(nil) // the 1-byte encoding of "no arguments"
	if variant == "empty-args" {
		packed = []byte{}
	}
	// two shapes of the call: a tiny code blob with an EMPTY amount string, and a code blob above the Go allocator's
	// large-object threshold (the bundled token wallet, 33 KB) with the amount 00 - which host callbacks run before
	// contract_addr, and how deep they go, decides at which stack depth the callback has to grow the stack
	shapes := []struct {
		name   string
		code   []byte
		amount []byte
	}{{"small-code+empty-amount", c15WasmCode[kSpender], []byte{}}, {"33KB-code+amount-00", c15WasmCode[kSft], []byte{0}}}
	ok, failed := 0, 0
	for _, sh := range shapes {
		for depth := 0; depth < c15CrashDepths; depth++ {
			fmt.Fprintf(os.Stderr, "shape %s depth %d\n", sh.name, depth)
			done := make(chan *types.TxReceipt)
			go func() {
				var rc *types.TxReceipt
				c15Deep(depth, func() {
					att := attachments.CreateCallContractAttachment("make", sh.code, packed, []byte{byte(depth), byte(depth >> 8)}, sh.amount, u32le(5000000))
					pl, _ := att.ToBytes()
					rc = run(&types.Transaction{Type: types.CallContractTx, To: &deployer, Payload: pl, Amount: big.NewInt(0)})
				})
				done <- rc
			}()
			if rc := <-done; rc != nil && rc.Success {
				ok++
			} else {
				failed++
			}
		}
	}
	fmt.Fprintf(os.Stderr, "survived %d ok=%d failed=%d\n", len(shapes)*c15CrashDepths, ok, failed)
}

var reCrashDepth = regexp.MustCompile(`(?m)^shape (\S+) depth (\d+)$`)

func TestVerifC15EmptySliceCallback(t *testing.T) {
	if !verifutil.Enabled() {
		t.Skip("verif harness")
	}
	if v := os.Getenv(c15CrashChildEnv); v != "" {
		c15CrashChild(v)
		return
	}
	c15SilenceStdout()
	rep := verifutil.NewReport()
	defer rep.Write()
	for _, variant := range []string{"no-args-encoded", "empty-args"} {
		rep.Progress("C15 empty-slice callback, variant %s", variant)
		cmd := exec.Command(os.Args[0], "-test.run", "^TestVerifC15EmptySliceCallback$", "-test.count=1")
		cmd.Env = append(os.Environ(), c15CrashChildEnv+"="+variant)
		outB, err := cmd.CombinedOutput()
		out := string(outB)
		rep.Eval(1)
		rep.Count("empty_slice_children_run", 1)
		last, shape := "-", "-"
		if m := reCrashDepth.FindAllStringSubmatch(out, -1); len(m) > 0 {
			shape, last = m[len(m)-1][1], m[len(m)-1][2]
		}
		firstLines := func(marker string, n int) string {
			i := strings.Index(out, marker)
			if i < 0 {
				return ""
			}
			l := strings.SplitN(out[i:], "\n", n+1)
			if len(l) > n {
				l = l[:n]
			}
			return strings.Join(l, "\n")
		}
		// "runtime: bad pointer in frame <func> at <addr>: 0x1" + "fatal error: invalid pointer found on stack"
		runtimeReport := firstLines("runtime: bad pointer", 2)
		replay := map[string]interface{}{"variant": variant, "depths": c15CrashDepths, "died_at_depth": last, "died_in_shape": shape, "how": "deploy c15DeployerHex, then call make(<code>, <packed args>, <2-byte nonce>, <amount>, 404b4c00) through vm/wasm.WasmVM.Run from a goroutine that first recursed <depth> frames of about 100 bytes"}
		switch {
		case err == nil && strings.Contains(out, "survived "):
			rep.Count("empty_slice_children_survived:"+variant, 1)
			rep.Distinct("empty-slice-callback", variant, "survived")
			rep.Sample(map[string]interface{}{"variant": variant, "result": firstLines("survived ", 1)})
		case strings.Contains(out, "invalid pointer found on stack"):
			rep.Distinct("empty-slice-callback", variant, "process-fatal")
			replay["runtime_report"] = firstLines("runtime: bad pointer", 2)
			rep.Violation("process-fatal:wasm-host-callback:empty-byte-string-argument:"+variant, fmt.Sprintf("the process executing a legal contract call died: %s. Call: deployer.make(code, packed args = %s, nonce, amount, gas 5000000) of shape %s, i.e. the host function create_deploy_contract_promise of the WASM runtime, executed by vm/wasm.WasmVM.Run on a goroutine whose stack was %s frames deep (the %d calls from shallower stacks returned receipts). "+
				"The Rust side passes an empty byte string to the exported Go callbacks (here lib.ccontract_addr) as ptr=0x1,len=0 in a pointer-typed C.U8SliceView; when the goroutine stack must grow while that frame is live the Go runtime throws, which no recover() catches - every node that executes the transaction at such a depth goes down",
				strings.ReplaceAll(runtimeReport, "\n", " | "), map[string]string{"empty-args": "EMPTY", "no-args-encoded": "01 (the encoding of no arguments)"}[variant], shape, last, len(reCrashDepth.FindAllString(out, -1))-1), replay)
		case strings.Contains(out, "setup-failed"):
			rep.Inconcl("empty-slice child %s: %s", variant, firstLines("setup-failed", 1))
		default:
			replay["output_tail"] = out[maxInt(0, len(out)-1500):]
			rep.Violation("process-fatal:wasm-host-callback:other:"+variant, fmt.Sprintf("the child process executing deployer.make calls ended abnormally (%v) after depth %s", err, last), replay)
		}
	}
}
