package verifsim

import (
	"encoding/json"
	"fmt"
	"sort"
	"sync"
	"time"

	"github.com/idena-network/idena-go/blockchain/types"
	"github.com/idena-network/idena-go/common"
	"github.com/idena-network/idena-go/core/appstate"
	"github.com/idena-network/idena-go/core/ceremony"
	"github.com/idena-network/idena-go/core/flip"
	"github.com/idena-network/idena-go/core/mempool"
	"github.com/idena-network/idena-go/rpc"
	"github.com/idena-network/idena-go/stats/collector"
)

// Real-ceremony mode of a replica: the objects node.NewNodeWithInjections wires for the
// validation ceremony (mempool.KeysPool, flip.Flipper, ceremony.ValidationCeremony), started
// with the call sequence of node.StartWithHeight (flipKeyPool.Initialize, fp.Initialize,
// ceremony.Initialize(head block), chain.ProvideApplyNewEpochFunc(ceremony.ApplyNewEpoch)).
// The protocol.Syncer is a stub that is never syncing. The function handed to the chain is
// the real ApplyNewEpoch wrapped by a recorder that keeps a canonicalised copy of every
// returned TotalValidationResult (observation only).
type realCeremony struct {
	r       *Replica
	Keys    *mempool.KeysPool
	Flipper *flip.Flipper
	VC      *ceremony.ValidationCeremony
}

type neverSyncing struct{}

func (neverSyncing) IsSyncing() bool { return false }

// EpochEval is one evaluation of ApplyNewEpoch observed on a replica.
type EpochEval struct {
	Replica  string
	Restarts int // how often the replica had been restarted when it evaluated
	Height   uint64
	Ordinal  int  // n-th evaluation of this height by this ceremony object (0 = first pass)
	CacheHit bool // the per-height cache was populated before the call
	Failed   bool
	Count    int
	Dump     string // canonicalised TotalValidationResult
}

var (
	evalMu  sync.Mutex
	evalLog = map[*World][]*EpochEval{}
)

// EpochEvals returns (and keeps) the evaluations recorded for a world.
func (w *World) EpochEvals() []*EpochEval {
	evalMu.Lock()
	defer evalMu.Unlock()
	return append([]*EpochEval{}, evalLog[w]...)
}

// DropEpochEvals forgets the recorded evaluations of a world.
func (w *World) DropEpochEvals() {
	evalMu.Lock()
	delete(evalLog, w)
	evalMu.Unlock()
}

// Real returns the real-ceremony objects of a replica (nil in synthetic mode).
func (r *Replica) Real() *realCeremony {
	if r.Epoch == nil {
		return nil
	}
	return r.Epoch.real
}

func newRealCeremony(r *Replica) *realCeremony {
	if r.Cfg.RPC == nil {
		// ValidationCeremony.determineClientType reads config.RPC.HTTPPort when the node
		// broadcasts its own short answers
		r.Cfg.RPC = &rpc.Config{}
	}
	c := &realCeremony{r: r}
	c.Keys = mempool.NewKeysPool(r.DB, r.AppState, r.Bus, r.SecStore)
	c.Flipper = flip.NewFlipper(r.DB, r.Ipfs, c.Keys, r.TxPool, r.SecStore, r.AppState, r.Bus)
	c.VC = ceremony.NewValidationCeremony(r.AppState, r.Bus, c.Flipper, r.SecStore, r.DB, r.TxPool, r.Chain, neverSyncing{}, c.Keys, r.Cfg)
	vc := c.VC
	ordinals := map[uint64]int{}
	r.Chain.ProvideApplyNewEpochFunc(func(height uint64, as *appstate.AppState, sc collector.StatsCollector) types.TotalValidationResult {
		_, _, hit := vc.VerifEpochCache(height)
		res := vc.ApplyNewEpoch(height, as, sc)
		ev := &EpochEval{Replica: r.Name, Restarts: r.Restarts, Height: height, Ordinal: ordinals[height], CacheHit: hit, Failed: res.Failed,
			Count: res.IdentitiesCount, Dump: CanonEpochResult(res)}
		ordinals[height]++
		evalMu.Lock()
		evalLog[r.W] = append(evalLog[r.W], ev)
		evalMu.Unlock()
		return res
	})
	return c
}

func (c *realCeremony) initialize() {
	head := c.r.Chain.Head
	c.Keys.Initialize(head)
	c.Flipper.Initialize()
	c.VC.Initialize(c.r.Chain.GetBlock(head.Hash()))
}

// WaitLottery blocks (real time, bounded) until the asynchronous flip lottery calculation of
// the replica's ceremony is finished. A node has minutes for this; the harness produces the
// next block right away, so it has to wait explicitly.
func (c *realCeremony) WaitLottery(max time.Duration) bool {
	deadline := time.Now().Add(max)
	for !c.VC.VerifLotteryFinished() {
		if time.Now().After(deadline) {
			return false
		}
		time.Sleep(200 * time.Microsecond)
	}
	return true
}

// ------------------------------------------------------------------ canonical form of an epoch result

type canonShard struct {
	Shard        uint32
	BadAuthors   []string
	GoodAuthors  []string
	AuthorRes    []string
	GoodInviters []string
	Reporters    []string
}

type canonResult struct {
	IdentitiesCount int
	Failed          bool
	Pools           []string
	NonValidated    []string
	Shards          []canonShard
}

func ax(a common.Address) string { return fmt.Sprintf("%x", a[:6]) }

// CanonEpochResult renders a TotalValidationResult with every map and set-like slice sorted.
func CanonEpochResult(res types.TotalValidationResult) string {
	c := canonResult{IdentitiesCount: res.IdentitiesCount, Failed: res.Failed}
	for a := range res.Pools {
		c.Pools = append(c.Pools, ax(a))
	}
	sort.Strings(c.Pools)
	for a, v := range res.NonValidatedStakes {
		c.NonValidated = append(c.NonValidated, ax(a)+"="+v.String())
	}
	sort.Strings(c.NonValidated)
	var ids []int
	for id := range res.ShardResults {
		ids = append(ids, int(id))
	}
	sort.Ints(ids)
	for _, id := range ids {
		sr := res.ShardResults[common.ShardId(id)]
		cs := canonShard{Shard: uint32(id)}
		if sr == nil {
			c.Shards = append(c.Shards, cs)
			continue
		}
		for a, reason := range sr.BadAuthors {
			cs.BadAuthors = append(cs.BadAuthors, fmt.Sprintf("%s:%d", ax(a), reason))
		}
		sort.Strings(cs.BadAuthors)
		for a, v := range sr.GoodAuthors {
			var fl []string
			for _, f := range v.FlipsToReward {
				fl = append(fl, fmt.Sprintf("%x/%d/%s", trunc(f.Cid, 8), f.Grade, f.GradeScore.String()))
			}
			sort.Strings(fl)
			cs.GoodAuthors = append(cs.GoodAuthors, fmt.Sprintf("%s:missed=%v:new=%d:flips=%v", ax(a), v.Missed, v.NewIdentityState, fl))
		}
		sort.Strings(cs.GoodAuthors)
		for a, v := range sr.AuthorResults {
			cs.AuthorRes = append(cs.AuthorRes, fmt.Sprintf("%s:%v/%v/%v", ax(a), v.HasOneReportedFlip, v.HasOneNotQualifiedFlip, v.AllFlipsNotQualified))
		}
		sort.Strings(cs.AuthorRes)
		for a, v := range sr.GoodInviters {
			var inv []string
			for _, s := range v.SuccessfulInvites {
				inv = append(inv, fmt.Sprintf("%s/age%d/%x/%d/pen=%v", ax(s.Address), s.Age, s.TxHash[:4], s.EpochHeight, s.Penalized))
			}
			sort.Strings(inv)
			cs.GoodInviters = append(cs.GoodInviters, fmt.Sprintf("%s:pay=%v:new=%d:invites=%v", ax(a), v.PayInvitationReward, v.NewIdentityState, inv))
		}
		sort.Strings(cs.GoodInviters)
		for flipIdx, m := range sr.ReportersToRewardByFlip {
			var rs []string
			for a, cnd := range m {
				rs = append(rs, fmt.Sprintf("%s/new=%d", ax(a), cnd.NewIdentityState))
			}
			sort.Strings(rs)
			cs.Reporters = append(cs.Reporters, fmt.Sprintf("%04d:%v", flipIdx, rs))
		}
		sort.Strings(cs.Reporters)
		c.Shards = append(c.Shards, cs)
	}
	b, _ := json.Marshal(c)
	return string(b)
}
