package verifsim

// placeholder for the real-ceremony wiring (filled in later)
type realCeremony struct{ r *Replica }

func newRealCeremony(r *Replica) *realCeremony { panic("real ceremony mode not built yet") }
func (c *realCeremony) initialize()            {}
