package verifsim

// Actor driver for REAL validation ceremonies (engine E1, property C17; reusable by other
// properties that want real epochs). The harness holds every key. Per epoch it lets
// identities invite / activate / delegate (also transitive shapes) / kill themselves / submit
// flips (content stored through the real Flipper into the shared content store), then walks
// the virtual clock through flip lottery -> short session -> long session -> after-long and
// lets every ceremony candidate play a PRNG-chosen behaviour: answers hash, short answers
// (consistent or deliberately inconsistent salt / words rnd), long answers with grades and
// reports derived from a per-flip "truth" and a per-actor accuracy, evidence bitmaps.
// Transactions reach the replicas' mempools like gossip would: per replica in a different
// order, with loss, with delay (= at a different virtual time), or not at all.

import (
	"bytes"
	"encoding/binary"
	"fmt"
	"sort"
	"strings"
	"time"

	"github.com/idena-network/idena-go/blockchain/attachments"
	"github.com/idena-network/idena-go/blockchain/types"
	"github.com/idena-network/idena-go/blockchain/validation"
	"github.com/idena-network/idena-go/common"
	"github.com/idena-network/idena-go/consensus"
	"github.com/idena-network/idena-go/core/flip"
	"github.com/idena-network/idena-go/core/state"
	"github.com/idena-network/idena-go/crypto"
	"github.com/idena-network/idena-go/crypto/ecies"
	"github.com/idena-network/idena-go/crypto/vrf/p256"
	"github.com/idena-network/idena-go/verifutil"
	dbm "github.com/tendermint/tm-db"
)

// NetProfile says how submitted transactions reach one replica's mempool.
type NetProfile struct {
	Blind    bool // never gets anything before inclusion in a block
	LossPct  int  // chance that a tx never arrives
	MaxDelay int  // arrival delayed by 0..MaxDelay blocks
}

type delayedTx struct {
	due int
	raw []byte
}

// Behaviour of one ceremony candidate in one epoch.
type Behaviour struct {
	Class      string
	Accuracy   float64
	Hash       bool // sends the answers hash in the short session
	LateHash   bool // ... but only in the long session
	Short      bool // reveals short answers
	Long       bool // sends long answers
	WrongSalt  bool // long attachment carries a salt that does not reproduce the hash
	WrongRnd   bool // short attachment carries a words rnd that does not match the VRF proof
	Evidence   int  // 0 none, 1 honest bitmap, 2 lazy (random bits dropped), 3 empty bitmap
	ReportProb float64
}

// EpochPlan holds what the harness knows about the running epoch.
type EpochPlan struct {
	Epoch     uint16
	Truth     map[string]types.Answer // cid -> correct answer
	Bad       map[string]bool         // cid -> deserves a report
	Cands     []common.Address        // ceremony candidates in lottery order, shard after shard
	CandIdx   map[common.Address]int  // index in the candidate list of the OWN shard (what evidence bitmaps index)
	NShards   int                     // shards of the ceremony's candidate table
	ShardOf   map[common.Address]common.ShardId
	CandsBy   map[common.ShardId][]common.Address // the ceremony's own per-shard candidate list
	FlipsBy   map[common.ShardId][][]byte
	EvMarked  map[common.Address]map[common.Address]bool // evidence sender -> candidates of its shard whose bit it set (harness' own record of the payload)
	Planted   map[common.Address]bool                    // candidates made to commit too late to be seen (multi-shard epochs)
	NonCands  []common.Address
	Flips     [][]byte
	ShortIdx  map[common.Address][]int
	LongIdx   map[common.Address][]int
	Beh       map[common.Address]*Behaviour
	InBlock   map[common.Address]map[types.TxType]uint64 // ceremony tx types included in blocks -> height
	HashSeen  map[common.Address]bool                    // answers hash offered to the network inside the short session
	Chain3    []common.Address                           // A,P,Q,R of the transitive delegation chain built this epoch (if any)
	Salt      map[common.Address][]byte
	ShortAns  map[common.Address][]byte
	Proof     map[common.Address][]byte
	Rnd       map[common.Address]uint64
	LackFlips map[common.Address]bool // deliberately submitted fewer flips than required
	Killed    map[common.Address]bool // sent a KillTx before the lottery
	Invites   []*Actor                // invite keys created this epoch
	NoActiv   map[common.Address]bool // invites deliberately left unactivated
}

// CeremonySim drives real ceremonies on a world.
type CeremonySim struct {
	W        *World
	R        *verifutil.Rng
	Rep      *verifutil.Report
	Profiles map[*Replica]*NetProfile
	queues   map[*Replica][]delayedTx
	blockNo  int
	Plan     *EpochPlan
	EpochNo  int // epochs driven so far
	seq      int
	// hooks
	OnStep      func(res *BlockResult)  // after every successfully distributed block
	OnPhase     func(phase string)      // "lottery", "short", "long", "afterlong" (right after the flagged block)
	BeforeFinal func() bool             // the next block will finish the validation; false = do not produce it, stop the world
	OnRefused   func(res *BlockResult)  // a replica refused a block
	Stopped     bool                    // a block was refused: the world is no longer usable
	ChainLinks  int                     // transitive delegation shape to build this epoch: 0 none, 2 = A->P->Q, 3 = A->P->Q->R
	Reliable    map[common.Address]bool // senders whose txs are never lost or delayed (besides node owners)
	Included    map[string]int
	Debug       bool
	dbgFlips    map[common.Address][]string
	// multi-shard epochs
	EvidenceDiscipline int // 0 = default mix; else percentage of evidence-capable candidates that are switched back to an honest map
	PlantUnseen        int // per shard, up to this many fully participating candidates commit their answers hash only in the long session
	// reorganisation of answers (see answersReorg)
	Reorg         *ReorgPlan
	OnReorged     func(rp *ReorgPlan)
	forceProposer *Replica
	CountPrefix   string
}

// count adds to a coverage counter of this simulation (prefixed for jobs that keep their own floors).
func (s *CeremonySim) count(name string, n int) { s.Rep.Count(s.CountPrefix+name, n) }

func NewCeremonySim(w *World, r *verifutil.Rng, rep *verifutil.Report) *CeremonySim {
	s := &CeremonySim{W: w, R: r, Rep: rep, Profiles: map[*Replica]*NetProfile{}, queues: map[*Replica][]delayedTx{}, Included: map[string]int{},
		Reliable: map[common.Address]bool{}, dbgFlips: map[common.Address][]string{}}
	return s
}

func (s *CeremonySim) profile(r *Replica) *NetProfile {
	if p, ok := s.Profiles[r]; ok {
		return p
	}
	if r.Observer {
		return &NetProfile{Blind: true}
	}
	return &NetProfile{LossPct: 12, MaxDelay: 2}
}

// Gossip offers a tx to the replicas' mempools according to their network profiles. Replica 0
// (the harness' reference view, which also numbers nonces) gets everything at once. Every
// replica receives its own decoded copy, as over a wire.
func (s *CeremonySim) Gossip(tx *types.Transaction) error {
	raw, err := tx.ToBytes()
	if err != nil {
		return err
	}
	var first error
	from := senderOf(tx)
	reliable := s.Reliable[from] || s.isNodeOwner(from)
	for i, r := range s.W.Replicas {
		if !r.Alive {
			continue
		}
		if i == 0 {
			first = s.deliver(r, raw)
			continue
		}
		p := s.profile(r)
		if p.Blind || !reliable && s.R.Intn(100) < p.LossPct {
			continue
		}
		d := 0
		if !reliable && p.MaxDelay > 0 && s.R.Intn(3) == 0 {
			d = s.R.Range(1, p.MaxDelay)
		}
		s.queues[r] = append(s.queues[r], delayedTx{due: s.blockNo + d, raw: raw})
	}
	return first
}

func (s *CeremonySim) deliver(r *Replica, raw []byte) error {
	tx := new(types.Transaction)
	if err := tx.FromBytes(raw); err != nil {
		return err
	}
	r.enter()
	err := r.TxPool.AddExternalTxs(validation.InboundTx, tx)
	if err != nil && s.Debug {
		s.count("dbg_deliver_"+TxName(tx.Type)+"_"+ErrClass(err), 1)
	}
	return err
}

// resync models the periodic mempool synchronisation between peers: every third block each
// gossiping replica gets, with probability 1/2 per tx, what the reference pool still holds.
func (s *CeremonySim) resync() {
	if s.blockNo%3 != 0 {
		return
	}
	pending := s.W.Replicas[0].TxPool.VerifAll()
	if len(pending) == 0 {
		return
	}
	sort.Slice(pending, func(i, j int) bool { return pending[i].AccountNonce < pending[j].AccountNonce })
	for i, r := range s.W.Replicas {
		if i == 0 || !r.Alive || s.profile(r).Blind {
			continue
		}
		for _, tx := range pending {
			if s.R.Bool() && r.TxPool.GetTx(tx.Hash()) == nil {
				if raw, err := tx.ToBytes(); err == nil {
					s.deliver(r, raw)
				}
			}
		}
	}
}

// flush delivers what is due, per replica in a PRNG order.
func (s *CeremonySim) flush() {
	s.resync()
	for _, r := range s.W.Replicas {
		q := s.queues[r]
		if len(q) == 0 {
			continue
		}
		var due, rest []delayedTx
		for _, d := range q {
			if d.due <= s.blockNo {
				due = append(due, d)
			} else {
				rest = append(rest, d)
			}
		}
		s.queues[r] = rest
		if !r.Alive {
			continue
		}
		for _, k := range s.R.Perm(len(due)) {
			s.deliver(r, due[k].raw)
		}
	}
}

// Step delivers due gossip, advances the clock and produces one block.
func (s *CeremonySim) Step(dt time.Duration) *BlockResult {
	w := s.W
	s.flush()
	st := w.View().AppState.State
	if s.BeforeFinal != nil && st.ValidationPeriod() == state.AfterLongSessionPeriod && st.CanCompleteEpoch() {
		if !s.BeforeFinal() {
			s.Stopped = true
			return nil
		}
	}
	now := w.Now()
	if ht := w.HeadTime(); now.Before(ht) {
		now = ht
	}
	setClock(now.Add(dt))
	var res *BlockResult
	if p := s.forceProposer; p != nil && p.Alive && p.CanPropose() {
		res = w.NextBlockBy(p)
	} else {
		res = w.NextBlock(0)
	}
	s.forceProposer = nil
	s.blockNo++
	if len(res.Errs) > 0 {
		s.Stopped = true
		if s.OnRefused != nil {
			s.OnRefused(res)
		}
		return res
	}
	b := res.Block
	for _, tx := range b.Body.Transactions {
		s.Included[TxName(tx.Type)]++
		if _, ok := types.CeremonialTxs[tx.Type]; ok && s.Plan != nil {
			a := senderOf(tx)
			m := s.Plan.InBlock[a]
			if m == nil {
				m = map[types.TxType]uint64{}
				s.Plan.InBlock[a] = m
			}
			if _, dup := m[tx.Type]; !dup {
				m[tx.Type] = b.Height()
			}
		}
	}
	if s.OnStep != nil {
		s.OnStep(res)
	}
	return res
}

func (s *CeremonySim) steps(n int, dt time.Duration) bool {
	for i := 0; i < n && !s.Stopped; i++ {
		s.Step(dt)
	}
	return !s.Stopped
}

func (s *CeremonySim) submit(a *Actor, t types.TxType, to *common.Address, amount int64, payload []byte) error {
	var amt = Dna(amount)
	if amount == 0 {
		amt = nil
	}
	return s.Gossip(s.W.Tx(a, t, to, amt, payload))
}

func (s *CeremonySim) delegateeOf(a common.Address) *common.Address {
	id := s.W.Identity(a)
	return id.Delegatee()
}

func (s *CeremonySim) isNodeOwner(a common.Address) bool {
	w := s.W
	if a == w.God.Addr {
		return true
	}
	for _, n := range w.Nodes {
		if n.Addr == a {
			return true
		}
	}
	return false
}

// identities returns the actors that have an identity object, in address order.
func (s *CeremonySim) identities() []*Actor {
	w := s.W
	var out []*Actor
	w.View().AppState.State.IterateOverIdentities(func(addr common.Address, _ state.Identity) {
		if a, ok := w.ByAddr[addr]; ok {
			out = append(out, a)
		}
	})
	sort.Slice(out, func(i, j int) bool { return bytes.Compare(out[i].Addr[:], out[j].Addr[:]) < 0 })
	return out
}

// ------------------------------------------------------------------ pre-lottery phase

// PreLottery runs the epoch's ordinary life: invitations, activations, delegations in three
// batches (so that transitive shapes can form), self-kills, flip submissions.
func (s *CeremonySim) PreLottery() bool {
	w, r := s.W, s.R
	st := w.View().AppState.State
	pl := &EpochPlan{Epoch: st.Epoch(), Truth: map[string]types.Answer{}, Bad: map[string]bool{}, CandIdx: map[common.Address]int{},
		ShortIdx: map[common.Address][]int{}, LongIdx: map[common.Address][]int{}, Beh: map[common.Address]*Behaviour{},
		InBlock: map[common.Address]map[types.TxType]uint64{}, HashSeen: map[common.Address]bool{}, Salt: map[common.Address][]byte{},
		ShortAns: map[common.Address][]byte{}, Proof: map[common.Address][]byte{}, Rnd: map[common.Address]uint64{},
		LackFlips: map[common.Address]bool{}, Killed: map[common.Address]bool{}, NoActiv: map[common.Address]bool{},
		ShardOf: map[common.Address]common.ShardId{}, CandsBy: map[common.ShardId][]common.Address{}, FlipsBy: map[common.ShardId][][]byte{},
		EvMarked: map[common.Address]map[common.Address]bool{}, Planted: map[common.Address]bool{}}
	s.Plan = pl
	dsr := int(w.Cons.DelegationSwitchRange)

	// 1. invitations by god and by identities that hold invites
	nInv := r.Range(3, 5)
	if s.ChainLinks > 0 && nInv < 4 {
		nInv = 4
	}
	for i := 0; i < nInv; i++ {
		s.seq++
		inv := w.AddActor("c17inv", s.seq+1000*s.EpochNo)
		if err := s.submit(w.God, types.InviteTx, &inv.Addr, 40, nil); err == nil {
			pl.Invites = append(pl.Invites, inv)
		}
	}
	for _, a := range s.identities() {
		id := w.Identity(a.Addr)
		if id.Invites > 0 && a != w.God && r.Intn(2) == 0 {
			s.seq++
			inv := w.AddActor("c17inv", s.seq+1000*s.EpochNo)
			if err := s.submit(a, types.InviteTx, &inv.Addr, 5, nil); err == nil {
				pl.Invites = append(pl.Invites, inv)
			}
		}
	}
	if !s.steps(2, 20*time.Second) {
		return false
	}
	// 2. activations: most invites are activated (to a fresh address or in place), some are left alone
	var fresh []*Actor
	for i, inv := range pl.Invites {
		if w.Identity(inv.Addr).State != state.Invite {
			continue
		}
		if i >= 2 && r.Intn(4) == 0 {
			pl.NoActiv[inv.Addr] = true
			continue
		}
		dst := inv
		if r.Bool() {
			s.seq++
			dst = w.AddActor("c17cand", s.seq+1000*s.EpochNo)
		}
		if err := s.submit(inv, types.ActivationTx, &dst.Addr, 0, dst.Pub); err == nil {
			fresh = append(fresh, dst)
		}
	}
	if !s.steps(2, 20*time.Second) {
		return false
	}
	var cands []*Actor
	for _, a := range fresh {
		if w.Identity(a.Addr).State == state.Candidate {
			cands = append(cands, a)
		}
	}

	// 3. delegations. Batch 1: A->P (both not validated, so P does not become a pool in the
	// validators cache), ordinary delegations to a pool; batch 2: P->Q; batch 3: Q->R.
	vc := w.View().AppState.ValidatorsCache
	free := func(exclude map[common.Address]bool, pred func(id state.Identity) bool) *Actor {
		l := s.identities()
		off := r.Intn(len(l) + 1)
		for i := range l {
			a := l[(i+off)%len(l)]
			id := w.Identity(a.Addr)
			if exclude[a.Addr] || s.isNodeOwner(a.Addr) || id.Delegatee() != nil || vc.IsPool(a.Addr) || st.DelegationSwitch(a.Addr) != nil ||
				id.State == state.Killed || id.State == state.Undefined || id.State == state.Invite {
				continue
			}
			if pred == nil || pred(id) {
				return a
			}
		}
		return nil
	}
	used := map[common.Address]bool{}
	notValidated := func(id state.Identity) bool {
		return id.State == state.Candidate || id.State == state.Suspended || id.State == state.Zombie
	}
	validated := func(id state.Identity) bool { return id.State.NewbieOrBetter() }
	var A, P, Q, R *Actor
	if s.ChainLinks >= 2 {
		if len(cands) >= 2 && r.Intn(3) != 0 {
			A, P = cands[0], cands[1]
		} else {
			A = free(used, notValidated)
			if A != nil {
				used[A.Addr] = true
				P = free(used, notValidated)
			}
		}
		if A != nil && P != nil {
			used[A.Addr], used[P.Addr] = true, true
			Q = free(used, validated)
			if Q != nil && s.ChainLinks >= 3 {
				used[Q.Addr] = true
				R = free(used, validated)
				if R != nil {
					used[R.Addr] = true
				}
			}
		}
	}
	for _, x := range []*Actor{A, P, Q, R} {
		if x != nil {
			s.Reliable[x.Addr] = true
		}
	}
	if A != nil && P != nil {
		s.submit(A, types.DelegateTx, &P.Addr, 0, nil)
	}
	// ordinary pool: two or three identities delegate to one pool owner
	if pool := free(used, validated); pool != nil {
		used[pool.Addr] = true
		for k := 0; k < r.Range(1, 3); k++ {
			if d := free(used, nil); d != nil {
				used[d.Addr] = true
				s.submit(d, types.DelegateTx, &pool.Addr, 0, nil)
			}
		}
	}
	// an existing delegator leaves its pool now and then
	for _, a := range s.identities() {
		id := w.Identity(a.Addr)
		if id.Delegatee() != nil && id.DelegationEpoch != st.Epoch() && r.Intn(4) == 0 {
			s.submit(a, types.UndelegateTx, nil, 0, nil)
		}
	}
	if !s.steps(dsr+3, 20*time.Second) {
		return false
	}
	// self-kills (KillTx is refused from the flip lottery on, so "killed during the epoch" means here)
	for _, a := range s.identities() {
		id := w.Identity(a.Addr)
		if s.isNodeOwner(a.Addr) || used[a.Addr] {
			continue
		}
		if (id.State == state.Verified || id.State == state.Human || id.State == state.Suspended || id.State == state.Zombie) && r.Intn(14) == 0 {
			if s.submit(a, types.KillTx, nil, 0, nil) == nil {
				pl.Killed[a.Addr] = true
			}
		}
	}
	if P != nil && Q != nil && s.delegateeOf(A.Addr) != nil {
		s.submit(P, types.DelegateTx, &Q.Addr, 0, nil)
	}
	if !s.steps(dsr+3, 20*time.Second) {
		return false
	}
	if Q != nil && R != nil && s.delegateeOf(P.Addr) != nil {
		s.submit(Q, types.DelegateTx, &R.Addr, 0, nil)
	}
	// 4. flips
	s.submitFlips()
	if !s.steps(dsr+3, 20*time.Second) {
		return false
	}
	if A != nil && P != nil && Q != nil {
		da, dp, dq := s.delegateeOf(A.Addr), s.delegateeOf(P.Addr), s.delegateeOf(Q.Addr)
		if R != nil && da != nil && dp != nil && dq != nil && *da == P.Addr && *dp == Q.Addr && *dq == R.Addr {
			pl.Chain3 = []common.Address{A.Addr, P.Addr, Q.Addr, R.Addr}
		} else if da != nil && dp != nil && *da == P.Addr && *dp == Q.Addr {
			pl.Chain3 = []common.Address{A.Addr, P.Addr, Q.Addr}
		}
	}
	s.submitFlips() // a second round for those whose earlier flip txs were lost on the way
	return s.steps(2, 20*time.Second)
}

// submitFlips lets every identity that may author flips submit them: content goes through a
// real Flipper (which stores it in the content store and offers the tx to its node's pool),
// the tx is gossiped to the other replicas.
func (s *CeremonySim) submitFlips() {
	w, r, pl := s.W, s.R, s.Plan
	for _, a := range s.identities() {
		id := w.Identity(a.Addr)
		if id.State < state.Candidate || id.State == state.Killed || pl.Killed[a.Addr] {
			continue
		}
		max := int(id.GetMaximumAvailableFlips())
		have := len(id.Flips)
		// count flips still waiting in the reference pool
		pending := int(w.NextNonce(a)) - int(w.StateNonce(a))
		want := max
		if a == w.God {
			// now and then god does not make its flips and drops out of the candidates
			if _, decided := pl.LackFlips[a.Addr]; !decided {
				pl.LackFlips[a.Addr] = id.RequiredFlips > 0 && r.Intn(8) == 0
			}
			if pl.LackFlips[a.Addr] {
				want = int(id.RequiredFlips) - 1
			}
		}
		if !s.isNodeOwner(a.Addr) {
			if _, decided := pl.LackFlips[a.Addr]; !decided {
				pl.LackFlips[a.Addr] = id.RequiredFlips > 0 && r.Intn(9) == 0
			}
			if pl.LackFlips[a.Addr] {
				want = int(id.RequiredFlips) - 1
			} else if r.Intn(3) == 0 {
				want = int(id.RequiredFlips) // no extra flips
			}
		}
		if a == w.God {
			// god needs no key word pairs; its quota only binds in networks above GodValidUntilNetworkSize
		} else if id.GetTotalWordPairsCount() == 0 {
			continue // no key word pairs yet (RequiredFlips == 0): a flip tx would be refused as invalid payload
		}
		usedPairs := map[uint8]bool{}
		for _, f := range id.Flips {
			usedPairs[f.Pair] = true
		}
		for k := have + pending; k < want; k++ {
			pair := uint8(0)
			for usedPairs[pair] {
				pair++
			}
			usedPairs[pair] = true
			pub := append([]byte("verif-flip-public-part:"), r.Bytes(r.Range(40, 400))...)
			priv := append([]byte("verif-flip-private-part:"), r.Bytes(r.Range(40, 400))...)
			ipf := &flip.IpfsFlip{PubKey: a.Pub, PublicPart: pub, PrivatePart: priv}
			data, _ := ipf.ToBytes()
			c, err := w.sharedIpfs().Cid(data)
			if err != nil {
				continue
			}
			tx := w.Tx(a, types.SubmitFlipTx, nil, nil, attachments.CreateFlipSubmitAttachment(c.Bytes(), pair))
			// through the Flipper of a PRNG-chosen gossiping replica
			var entry *Replica
			for _, k := range r.Perm(len(w.Replicas)) {
				if x := w.Replicas[k]; x.Alive && x.Real() != nil && !s.profile(x).Blind {
					entry = x
					break
				}
			}
			if entry == nil {
				continue
			}
			entry.enter()
			raw, _ := tx.ToBytes()
			own := new(types.Transaction)
			own.FromBytes(raw)
			if err := entry.Real().Flipper.AddNewFlip(&types.Flip{Tx: own, PublicPart: pub, PrivatePart: priv}, true); err != nil {
				s.count("flip_refused_by_flipper", 1)
				continue
			}
			s.Gossip(tx)
			key := string(c.Bytes())
			if r.Bool() {
				pl.Truth[key] = types.Left
			} else {
				pl.Truth[key] = types.Right
			}
			if r.Intn(9) == 0 && !s.isNodeOwner(a.Addr) {
				pl.Bad[key] = true
			}
			s.count("flips_submitted", 1)
			if s.Debug {
				s.dbgFlips[a.Addr] = append(s.dbgFlips[a.Addr], fmt.Sprintf("n%d@b%d via %s", tx.AccountNonce, s.blockNo, entry.Name))
			}
		}
	}
}

// ------------------------------------------------------------------ the ceremony itself

func (s *CeremonySim) chooseBehaviour(a common.Address, id state.Identity) *Behaviour {
	r := s.R
	b := &Behaviour{Class: "good", Accuracy: 0.93 + 0.07*r.Float(), Hash: true, Short: true, Long: true, Evidence: 1, ReportProb: 0.85}
	if s.isNodeOwner(a) {
		b.Accuracy = 1
		return b
	}
	if s.Plan != nil {
		for i, c := range s.Plan.Chain3 {
			if i < 2 && c == a {
				b.Accuracy = 1 // A and P of the transitive chain are meant to pass
				return b
			}
		}
	}
	switch r.Pick(50, 12, 6, 8, 4, 3, 3, 3, 3, 4) {
	case 1:
		b.Class, b.Accuracy = "mediocre", 0.6+0.25*r.Float()
	case 2:
		b.Class, b.Accuracy = "bad", 0.3+0.25*r.Float()
	case 3:
		b.Class, b.Hash, b.Short, b.Long, b.Evidence = "missAll", false, false, false, 0
	case 4:
		b.Class, b.Long, b.Evidence = "missLong", false, 0
	case 5:
		b.Class, b.Short = "missReveal", false
	case 6:
		b.Class, b.Hash = "noHash", false
	case 7:
		b.Class, b.WrongSalt = "wrongSalt", true
	case 8:
		b.Class, b.WrongRnd = "wrongRnd", true
	case 9:
		b.Class, b.LateHash = "lateHash", true
	}
	if b.Evidence == 1 {
		switch r.Pick(60, 22, 12, 6) {
		case 1:
			b.Evidence = 0
		case 2:
			b.Evidence = 2
		case 3:
			b.Evidence = 3
		}
		if s.EvidenceDiscipline > 0 && b.Evidence != 1 && r.Intn(100) < s.EvidenceDiscipline {
			b.Evidence = 1
		}
	}
	return b
}

func (s *CeremonySim) allReal() []*Replica {
	var l []*Replica
	for _, r := range s.W.Replicas {
		if r.Alive && r.Real() != nil {
			l = append(l, r)
		}
	}
	return l
}

// ToLottery jumps the clock to shortly before the flip lottery and produces blocks until the
// lottery has started; then waits for every replica's (asynchronous) lottery calculation.
func (s *CeremonySim) ToLottery() bool {
	w := s.W
	st := w.View().AppState.State
	nvt := st.NextValidationTime()
	target := nvt.Add(-w.Opt.FlipLottery - time.Duration(s.R.Range(5, 50))*time.Second)
	if w.Now().Before(target) {
		setClock(target)
	}
	for i := 0; st.ValidationPeriod() != state.FlipLotteryPeriod; i++ {
		if i > 50 || s.Stopped {
			return false
		}
		s.Step(20 * time.Second)
	}
	for _, r := range s.allReal() {
		if !r.Real().WaitLottery(20 * time.Second) {
			s.Rep.Inconcl("flip lottery calculation of %s did not finish within 20 s", r.Name)
			return false
		}
	}
	if s.Debug {
		for a, l := range s.dbgFlips {
			id := w.Identity(a)
			if len(id.Flips) < len(l) {
				inPools := ""
				for _, r := range w.Replicas {
					n := 0
					for _, tx := range r.TxPool.VerifAll() {
						if senderOf(tx) == a {
							n++
						}
					}
					inPools += fmt.Sprintf(" %s:%d", r.Name, n)
				}
				s.Rep.Note("flips of %s(%s): submitted %v on chain %d required %d stateNonce %d; pools:%s", fmtAddr(a), w.ByAddr[a].Name, l, len(id.Flips), id.RequiredFlips, w.StateNonce(w.ByAddr[a])-1, inPools)
			}
		}
		s.dbgFlips = map[common.Address][]string{}
	}
	if s.OnPhase != nil {
		s.OnPhase("lottery")
	}
	// read the tables from the reference replica: every shard has its own candidate list (the
	// list evidence bitmaps index), its own flips and its own lottery
	pl := s.Plan
	vc := w.View().Real().VC
	pl.NShards = vc.VerifShards()
	for sh := common.ShardId(1); sh <= common.ShardId(pl.NShards); sh++ {
		cands := vc.VerifCandidates(sh)
		pl.CandsBy[sh] = cands
		pl.FlipsBy[sh] = vc.VerifFlips(sh)
		pl.NonCands = append(pl.NonCands, vc.VerifNonCandidates(sh)...)
		pl.Flips = append(pl.Flips, pl.FlipsBy[sh]...)
		for i, c := range cands {
			pl.Cands = append(pl.Cands, c)
			pl.ShardOf[c] = sh
			pl.CandIdx[c] = i
			pl.ShortIdx[c], pl.LongIdx[c] = vc.VerifFlipsToSolve(sh, i)
			pl.Beh[c] = s.chooseBehaviour(c, w.Identity(c))
		}
	}
	s.plantUnseen()
	return true
}

// plantUnseen (multi-shard epochs): per shard a few candidates that take part completely
// commit their answers hash only after the short session, so that no honest evidence map of
// their shard confirms them although hash, short and long answers are all on chain. Preferred
// are list positions at which the OTHER shard's list holds a candidate that does commit in time.
func (s *CeremonySim) plantUnseen() {
	pl := s.Plan
	if s.PlantUnseen <= 0 || pl.NShards < 2 {
		return
	}
	full := func(c common.Address) bool {
		b := pl.Beh[c]
		return b != nil && (b.Class == "good" || b.Class == "mediocre") && !s.isNodeOwner(c) && !s.Reliable[c]
	}
	for sh := common.ShardId(1); sh <= common.ShardId(pl.NShards); sh++ {
		other := pl.CandsBy[sh%common.ShardId(pl.NShards)+1]
		n := 0
		for pass := 0; pass < 2 && n < s.PlantUnseen; pass++ {
			for i, c := range pl.CandsBy[sh] {
				if n >= s.PlantUnseen || !full(c) || pl.Planted[c] {
					continue
				}
				if pass == 0 {
					if i >= len(other) {
						continue
					}
					ob := pl.Beh[other[i]]
					if ob == nil || !ob.Hash || ob.LateHash || pl.Planted[other[i]] {
						continue
					}
				}
				b := pl.Beh[c]
				b.Class, b.LateHash = "lateHash", true
				pl.Planted[c] = true
				n++
			}
		}
		s.count("planted_unseen_candidates", n)
	}
}

func (s *CeremonySim) answersFor(c common.Address, idx []int, long bool) *types.Answers {
	pl, r := s.Plan, s.R
	b := pl.Beh[c]
	flips := pl.FlipsBy[pl.ShardOf[c]]
	ans := types.NewAnswers(uint(len(idx)))
	increased := 0
	reports := 0
	for i, fi := range idx {
		if len(flips) == 0 {
			break // a shard without any flip: the lottery hands out placeholder indexes; answer nothing
		}
		cid := flips[fi%len(flips)]
		truth := pl.Truth[string(cid)]
		if truth == types.None {
			truth = types.Left // a flip the harness did not author (none expected)
		}
		var a types.Answer
		x := r.Float()
		switch {
		case x < b.Accuracy:
			a = truth
		case x < b.Accuracy+(1-b.Accuracy)*0.15:
			a = types.None
		default:
			a = types.Left + types.Right - truth
		}
		switch a {
		case types.Left:
			ans.Left(uint(i))
		case types.Right:
			ans.Right(uint(i))
		}
		if long {
			bad := pl.Bad[string(cid)]
			switch {
			case bad && r.Float() < b.ReportProb && reports*3 < len(idx)-1:
				ans.Grade(uint(i), types.GradeReported)
				reports++
			case !bad && r.Intn(40) == 0 && reports*3 < len(idx)-1:
				ans.Grade(uint(i), types.GradeReported)
				reports++
			default:
				g := types.GradeD
				if increased == 0 && r.Intn(5) == 0 {
					g = types.Grade(r.Range(int(types.GradeC), int(types.GradeA)))
					increased++
				} else if r.Intn(6) == 0 {
					g = types.GradeNone
				}
				ans.Grade(uint(i), g)
			}
		}
	}
	return ans
}

// ShortSession moves to the validation time, starts the short session and lets candidates
// commit to their short answers.
func (s *CeremonySim) ShortSession() bool {
	w, pl := s.W, s.Plan
	st := w.View().AppState.State
	nvt := st.NextValidationTime()
	for i := 0; st.ValidationPeriod() != state.ShortSessionPeriod; i++ {
		if i > 50 || s.Stopped {
			return false
		}
		if w.Now().Before(nvt) && nvt.Sub(w.Now()) < 25*time.Second {
			setClock(nvt.Add(-19 * time.Second)) // the next block lands one second after the validation time
		}
		s.Step(20 * time.Second)
	}
	if s.OnPhase != nil {
		s.OnPhase("short")
	}
	seedBytes := st.FlipWordsSeed()
	for _, c := range pl.Cands {
		a := w.ByAddr[c]
		b := pl.Beh[c]
		if a == nil || b == nil {
			continue
		}
		signer, err := p256.NewVRFSigner(a.Key)
		if err != nil {
			continue
		}
		h, proof := signer.Evaluate(seedBytes[:])
		pl.Proof[c] = proof
		pl.Rnd[c] = binary.LittleEndian.Uint64(h[:])
		pl.Salt[c] = crypto.Keccak256([]byte("verif-salt"), c[:], []byte{byte(pl.Epoch), byte(pl.Epoch >> 8)})
		pl.ShortAns[c] = s.answersFor(c, pl.ShortIdx[c], false).Bytes()
	}
	// hashes arrive spread over the short session
	order := s.R.Perm(len(pl.Cands))
	half := len(order) / 2
	sendHash := func(c common.Address) {
		a := w.ByAddr[c]
		b := pl.Beh[c]
		if a == nil || b == nil || !b.Hash || b.LateHash {
			return
		}
		salt := pl.Salt[c]
		if b.WrongSalt {
			salt = crypto.Keccak256(salt)
		}
		hash := crypto.Hash(append(append([]byte{}, pl.ShortAns[c]...), salt...))
		if s.submit(a, types.SubmitAnswersHashTx, nil, 0, hash[:]) == nil {
			pl.HashSeen[c] = true
		}
	}
	for _, k := range order[:half] {
		sendHash(pl.Cands[k])
	}
	if !s.steps(1, 20*time.Second) {
		return false
	}
	for _, k := range order[half:] {
		sendHash(pl.Cands[k])
	}
	return true
}

// LongSession produces blocks until the long session has started, then lets the candidates
// reveal short answers, send long answers and evidence.
func (s *CeremonySim) LongSession() bool {
	w, pl, r := s.W, s.Plan, s.R
	st := w.View().AppState.State
	for i := 0; st.ValidationPeriod() != state.LongSessionPeriod; i++ {
		if i > 50 || s.Stopped {
			return false
		}
		s.Step(20 * time.Second)
	}
	if s.OnPhase != nil {
		s.OnPhase("long")
	}
	s.chooseReorgVictims()
	for _, k := range r.Perm(len(pl.Cands)) {
		c := pl.Cands[k]
		a, b := w.ByAddr[c], pl.Beh[c]
		if a == nil || b == nil {
			continue
		}
		held := 0 // kinds of answers txs this candidate's wallet hands only to the node behind the minority block
		if s.Reorg != nil && s.Reorg.isVictim(c) {
			held = s.Reorg.Kinds
		}
		if b.Hash && b.LateHash {
			hash := crypto.Hash(append(append([]byte{}, pl.ShortAns[c]...), pl.Salt[c]...))
			s.submit(a, types.SubmitAnswersHashTx, nil, 0, hash[:])
		}
		if b.Long && held&ReorgLong == 0 {
			s.submit(a, types.SubmitLongAnswersTx, nil, 0, s.longAnswersPayload(c))
		}
		if b.Short && held&ReorgShort == 0 {
			s.submit(a, types.SubmitShortAnswersTx, nil, 0, s.shortAnswersPayload(c))
		}
	}
	if !s.steps(1, 20*time.Second) {
		return false
	}
	// evidence: who was seen committing in the short session. A bitmap indexes the candidate list
	// of the sender's own shard.
	for _, k := range r.Perm(len(pl.Cands)) {
		c := pl.Cands[k]
		a, b := w.ByAddr[c], pl.Beh[c]
		if a == nil || b == nil || b.Evidence == 0 {
			continue
		}
		if s.Reorg != nil && s.Reorg.isVictim(c) {
			continue // its next nonces belong to the withheld txs
		}
		s.submit(a, types.EvidenceTx, nil, 0, s.evidencePayload(c)) // refused for candidates / delegators / discriminated senders: fine
	}
	return true
}

func (s *CeremonySim) longAnswersPayload(c common.Address) []byte {
	w, pl := s.W, s.Plan
	la := s.answersFor(c, pl.LongIdx[c], true)
	key := ecies.ImportECDSA(DeriveKey(w.Opt.Seed, "c17flipkey"+w.ByAddr[c].Name, int(pl.Epoch)))
	return attachments.CreateLongAnswerAttachment(la.Bytes(), pl.Proof[c], pl.Salt[c], key)
}

func (s *CeremonySim) shortAnswersPayload(c common.Address) []byte {
	pl := s.Plan
	rnd := pl.Rnd[c]
	if pl.Beh[c].WrongRnd {
		rnd ^= 0x5a5a
	}
	return attachments.CreateShortAnswerAttachment(pl.ShortAns[c], rnd, 1)
}

// evidencePayload builds c's evidence bitmap over the candidate list of c's shard and records
// which candidates it confirms.
func (s *CeremonySim) evidencePayload(c common.Address) []byte {
	pl, r := s.Plan, s.R
	b := pl.Beh[c]
	list := pl.CandsBy[pl.ShardOf[c]]
	bm := common.NewBitmap(uint32(len(list)))
	marked := map[common.Address]bool{}
	if b.Evidence != 3 {
		for i, x := range list {
			if pl.HashSeen[x] && !(b.Evidence == 2 && r.Intn(3) == 0) {
				bm.Add(uint32(i))
				marked[x] = true
			}
		}
	}
	pl.EvMarked[c] = marked
	buf := new(bytes.Buffer)
	bm.WriteTo(buf)
	return buf.Bytes()
}

// ------------------------------------------------------------------ reorganisation that drops answers

const (
	ReorgLong  = 1
	ReorgShort = 2
)

// ReorgPlan describes one "minority block" history of an epoch. Some candidates' wallets hand
// their short and/or long answers tx to one node only. Late in the long session (or early in
// the after-long period), when no other answers tx is waiting anywhere, that node (Proposer)
// proposes a block with them. Only the Targets get it; the rest of the network agrees on
// other blocks for that height and the next one, without those txs. The Targets then learn of
// the longer certified chain and switch to it the way a node does: the real fork resolver
// (processBlocks -> ValidateSubChain, ApplyFork -> Blockchain.ResetTo, which publishes
// BlockchainResetEvent with the reverted txs, then AddBlock of the fork blocks), followed by
// what consensus.Engine does with the result (reverted txs are offered to the own mempool).
// Returns=false: the txs never reach a proposer again (the reorganised observers do not
// propose), so the canonical chain all replicas end on has no such answers. Returns=true:
// a proposing node is among the targets; the txs sit in its pool again and it includes them.
type ReorgPlan struct {
	Phase               string // "long" / "afterlong": earliest period for the minority block
	Kinds               int    // ReorgLong | ReorgShort: which answers txs the victims withhold from the network
	NVictims            int
	Targets             []*Replica
	Proposer            *Replica // harness-fed observer that may propose: builds the minority block, does not insert it
	Returns             bool
	ReturnNode          *Replica // the proposing node among the targets (Returns only)
	RestartDelay        int      // blocks the latest restart of a reorganised replica waits after the fork switch
	Late                bool     // the targets stay cut off until the network has finished the validation: their fork contains the validation-finishing block
	CutOff              map[*Replica]bool
	LateRefused         map[*Replica]error
	LateAnswer          *ForkAnswer        // the peer's answer to the fork request of the late targets
	MinorityCeremonyTxs int                // ceremony txs in the minority block
	LateRefusedAgain    map[*Replica]error // ... and again after a restart of the replica
	LateNames           map[string]bool    // names of the replicas that were cut off until after the validation
	lateSeen            []*Replica
	// results
	Victims        []common.Address
	Done           bool                                     // the minority block was tried
	Happened       bool                                     // ... and at least one target reorganised away from it
	Period         string                                   // period in which it happened
	Reorganised    []*Replica                               // targets that went through ResetTo + fork blocks
	Reverted       map[common.Address]map[types.TxType]bool // answers / evidence txs handed back by ResetTo, by sender
	MinorityHeight uint64
}

func (rp *ReorgPlan) noteReverted(reverted []*types.Transaction) {
	for _, tx := range reverted {
		if _, ok := types.CeremonialTxs[tx.Type]; ok {
			a := senderOf(tx)
			if rp.Reverted[a] == nil {
				rp.Reverted[a] = map[types.TxType]bool{}
			}
			rp.Reverted[a][tx.Type] = true
		}
	}
}

func (rp *ReorgPlan) isVictim(c common.Address) bool {
	for _, v := range rp.Victims {
		if v == c {
			return true
		}
	}
	return false
}

// chooseReorgVictims picks fully participating candidates whose answers matter.
func (s *CeremonySim) chooseReorgVictims() {
	rp, pl := s.Reorg, s.Plan
	if rp == nil || rp.Kinds == 0 {
		return
	}
	chain := map[common.Address]bool{}
	for _, c := range pl.Chain3 {
		chain[c] = true
	}
	var pool []common.Address
	for _, c := range pl.Cands {
		b := pl.Beh[c]
		if b == nil || s.W.ByAddr[c] == nil || s.isNodeOwner(c) || chain[c] || s.Reliable[c] || pl.Planted[c] {
			continue
		}
		if b.Hash && !b.LateHash && b.Short && b.Long && !b.WrongSalt && !b.WrongRnd && b.Accuracy > 0.9 {
			pool = append(pool, c)
		}
	}
	for _, k := range s.R.Perm(len(pool)) {
		if len(rp.Victims) >= rp.NVictims {
			break
		}
		rp.Victims = append(rp.Victims, pool[k])
	}
	s.count("answers_reorg_victims_chosen", len(rp.Victims))
}

func isAnswersTx(t types.TxType) bool {
	return t == types.SubmitShortAnswersTx || t == types.SubmitLongAnswersTx
}

// reorgReady: the minority block is only tried when no other answers tx is under way (in a
// pool or on the wire) and the validation cannot finish before the history is played.
func (s *CeremonySim) reorgReady() bool {
	rp, w := s.Reorg, s.W
	if rp == nil || rp.Done || len(rp.Victims) == 0 && rp.Kinds != 0 {
		return false
	}
	st := w.View().AppState.State
	per := st.ValidationPeriod()
	if per != state.LongSessionPeriod && per != state.AfterLongSessionPeriod {
		return false
	}
	if rp.Phase == "afterlong" && per != state.AfterLongSessionPeriod {
		return false
	}
	if per == state.AfterLongSessionPeriod {
		n := int(st.ShardsNum())
		eb := st.EmptyBlocksByShard()
		minLen := 1 << 30
		for sh := 1; sh <= n; sh++ {
			if l := len(eb[common.ShardId(sh)]); l < minLen {
				minLen = l
			}
		}
		room := minInt(state.AfterLongRequiredBlocks-minLen, state.AfterLongRequiredBlocks*2*n-int(st.BlocksCntWithoutCeremonialTxs()))
		if rp.Late {
			// the minority block competes for the LAST slot before the validation-finishing block: a peer
			// answers a fork request with one block more than the asker's own branch has, so the answer
			// to a one-block branch reaches the validation-finishing block only from here
			if room != 1 {
				return false
			}
		} else if room < 2+rp.RestartDelay {
			// two canonical blocks while the targets are cut off, plus the blocks a delayed restart waits
			// (a ceremony after the first starts its after-long period with one block already counted)
			if s.Debug {
				s.count(fmt.Sprintf("dbg_reorg_no_room_minLen%d_cnt%d", minLen, st.BlocksCntWithoutCeremonialTxs()), 1)
			}
			return false
		}
	}
	for _, r := range w.Replicas {
		if !r.Alive {
			continue
		}
		for _, tx := range r.TxPool.VerifAll() {
			if isAnswersTx(tx.Type) {
				if s.Debug {
					s.count("dbg_reorg_not_quiet_pool_"+r.Name+"_"+rp.Phase, 1)
				}
				return false
			}
		}
		for _, d := range s.queues[r] {
			tx := new(types.Transaction)
			if tx.FromBytes(d.raw) == nil && isAnswersTx(tx.Type) {
				return false
			}
		}
	}
	return true
}

// answersReorg plays the history described at ReorgPlan.
func (s *CeremonySim) answersReorg() {
	w, pl, rp := s.W, s.Plan, s.Reorg
	rp.Done = true
	st := w.View().AppState.State
	p := rp.Proposer
	if p == nil || !p.Alive || !p.CanPropose() {
		s.count("answers_reorg_skipped_no_minority_proposer", 1)
		return
	}
	after := st.ValidationPeriod() == state.AfterLongSessionPeriod
	rp.Period = "long"
	txType := validation.InboundTx
	if after {
		// an answers tx that reached a pool during the long session stays valid there (only NEW arrivals are late)
		rp.Period, txType = "afterlong", validation.MempoolTx
	}
	// the withheld txs: consecutive nonces per victim, built on the canonical head
	var held []*types.Transaction
	for _, v := range rp.Victims {
		a := w.ByAddr[v]
		if w.NextNonce(a) != w.StateNonce(a) {
			s.count("answers_reorg_victim_skipped_pending_txs", 1)
			continue
		}
		var specs []struct {
			t types.TxType
			p []byte
		}
		add := func(t types.TxType, p []byte) {
			specs = append(specs, struct {
				t types.TxType
				p []byte
			}{t, p})
		}
		if rp.Kinds&ReorgLong != 0 {
			add(types.SubmitLongAnswersTx, s.longAnswersPayload(v))
		}
		if rp.Kinds&ReorgShort != 0 {
			add(types.SubmitShortAnswersTx, s.shortAnswersPayload(v))
		}
		if b := pl.Beh[v]; b.Evidence != 0 {
			add(types.EvidenceTx, s.evidencePayload(v)) // accepted only from senders that may give evidence
		}
		for i, sp := range specs {
			tx := w.Tx(a, sp.t, nil, nil, sp.p)
			if i > 0 {
				tx = SignedTx(a, sp.t, nil, nil, tx.MaxFee, nil, tx.AccountNonce+uint32(i), tx.Epoch, sp.p)
			}
			held = append(held, tx)
		}
	}
	if rp.Kinds == 0 && len(w.Accounts) > 1 {
		// control history: the minority block differs from the canonical one only by a plain payment
		to := w.God.Addr
		held = append(held, w.Tx(w.Accounts[1], types.SendTx, &to, Dna(1), nil))
		txType = validation.InboundTx
	}
	p.enter()
	for _, tx := range held {
		raw, _ := tx.ToBytes()
		own := new(types.Transaction)
		own.FromBytes(raw)
		if err := p.TxPool.AddExternalTxs(txType, own); err != nil && s.Debug {
			s.count("dbg_minority_pool_"+TxName(tx.Type)+"_"+ErrClass(err), 1)
		}
	}
	now := w.Now()
	if ht := w.HeadTime(); now.Before(ht) {
		now = ht
	}
	setClock(now.Add(19 * time.Second))
	prop := w.Propose(p)
	for _, tx := range p.TxPool.VerifAll() {
		p.TxPool.Remove(tx)
	}
	mb := prop.Block
	nAns := 0
	for _, tx := range mb.Body.Transactions {
		if isAnswersTx(tx.Type) {
			nAns++
		}
	}
	for _, tx := range mb.Body.Transactions {
		if _, ok := types.CeremonialTxs[tx.Type]; ok {
			rp.MinorityCeremonyTxs++
		}
	}
	if nAns == 0 && rp.Kinds != 0 || len(mb.Body.Transactions) == 0 || mb.Header.Flags().HasFlag(types.ValidationFinished) {
		s.count("answers_reorg_skipped_minority_block_without_answers", 1)
		return
	}
	rp.MinorityHeight = mb.Height()
	var seen []*Replica
	for _, r := range rp.Targets {
		if !r.Alive {
			continue
		}
		if err := r.Receive(prop); err != nil {
			s.Rep.Violation("block-refused-in-real-epoch:minority-block:"+BlockKind(mb)+":"+ErrClass(err),
				fmt.Sprintf("block %d (%s) proposed by %s with withheld answers txs is refused by %s: %v", mb.Height(), BlockKind(mb), p.Name, r.Name, err),
				map[string]interface{}{"block": DescribeBlock(mb)})
			continue
		}
		seen = append(seen, r)
	}
	if len(seen) == 0 {
		return
	}
	s.count("answers_reorg_minority_blocks", 1)
	s.count("answers_reorg_minority_block_answers_txs", nAns)
	// the targets are cut off; everybody else goes on with other blocks
	rp.CutOff = map[*Replica]bool{}
	for _, r := range seen {
		r.Alive = false
		rp.CutOff[r] = true
	}
	if rp.Late {
		// the partition outlasts the validation: the targets come back after the validation-finishing block
		rp.lateSeen = seen
		rp.LateNames = map[string]bool{}
		for _, r := range seen {
			rp.LateNames[r.Name] = true
		}
		s.count("answers_reorg_late_partitions", 1)
		return
	}
	var canon []*types.Block
	for i := 0; i < 2 && !s.Stopped; i++ {
		dt := 20 * time.Second
		if i == 0 {
			dt = time.Second // competes with the minority block for the same slot
		}
		res := s.Step(dt)
		if s.Stopped || res == nil {
			return
		}
		canon = append(canon, res.Block)
		if res.Block.Header.Flags().HasFlag(types.ValidationFinished) {
			s.Rep.Note("validation finished while replicas were on a minority branch (harness: room check failed)")
			s.Stopped = true
			return
		}
	}
	// the partition heals: fork resolution
	rp.Reverted = map[common.Address]map[types.TxType]bool{}
	for _, r := range seen {
		r.Alive = true
		delete(rp.CutOff, r)
		fa, err := s.adoptFork(r)
		if err != nil {
			r.Alive = false // cannot follow any more; the world goes on without it
			s.count("answers_reorg_fork_not_adopted", 1)
			s.forkRefused(r, fa, err)
			continue
		}
		rp.Reorganised = append(rp.Reorganised, r)
		s.count(fmt.Sprintf("fork_answers_of_%d_blocks", len(fa.Blocks)), 1)
		rp.noteReverted(fa.Reverted)
	}
	if len(rp.Reorganised) == 0 {
		return
	}
	rp.Happened = true
	s.count("answers_reorgs", 1)
	s.count("answers_reorgs_in_"+rp.Period, 1)
	s.count("answers_reorg_replicas_reorganised", len(rp.Reorganised))
	if rp.Returns && rp.ReturnNode != nil && rp.ReturnNode.Alive {
		s.forceProposer = rp.ReturnNode // its pool holds the reverted txs again
	}
	if s.OnReorged != nil {
		s.OnReorged(rp)
	}
}

// forkRefused: a replica does not switch from its one-block minority branch to the longer,
// certified chain everybody else is on.
func (s *CeremonySim) forkRefused(r *Replica, fa *ForkAnswer, err error) {
	if strings.HasPrefix(err.Error(), "harness:") {
		s.Rep.Note("answers reorg: %v", err)
		return
	}
	from, to := uint64(0), uint64(0)
	if len(fa.Blocks) > 0 {
		from, to = fa.Blocks[0].Height(), fa.Blocks[len(fa.Blocks)-1].Height()
	}
	s.Rep.Violation("canonical-chain-refused-after-minority-block:"+ForkErrClass(err),
		fmt.Sprintf("%s had inserted a block that the network did not adopt; a peer on the canonical chain answers its fork request with the %d certified blocks %d..%d; %s does not get onto the canonical chain: %v",
			r.Name, len(fa.Blocks), from, to, r.Name, err), nil)
}

// ForkErrClass is ErrClass without the peer id the resolver puts into its messages.
func ForkErrClass(err error) string {
	t := err.Error()
	if i := strings.Index(t, "err="); i >= 0 {
		t = t[i+4:]
	}
	return ErrClass(fmt.Errorf("%s", t))
}

// ForkAnswer is what a canonical peer answers to r's fork request, and what became of it.
type ForkAnswer struct {
	Blocks       []*types.Block
	HasFinal     bool // contains a validation-finishing block
	CeremonyTxs  int  // ceremony txs in the blocks below the validation-finishing block (all blocks if there is none)
	Reverted     []*types.Transaction
	SyncedBlocks int // blocks taken over by ordinary block-by-block sync after the switch
}

// adoptFork moves r from its minority branch to the canonical chain the way a node does it:
// r's top block hashes go to a peer that is on the canonical chain (the reference replica),
// whose real Blockchain.ReadBlockForForkedPeer answers with the blocks above the common
// ancestor - one more than r has on its own branch - and their certificates; r's real fork
// resolver checks them (processBlocks -> ValidateSubChain) and applies them (ApplyFork =
// ResetTo, which publishes BlockchainResetEvent with the reverted txs, + AddBlock); the
// reverted txs are offered to the own mempool as consensus.Engine does; what the peer has
// beyond the answer arrives by ordinary sync (AddBlock one by one).
func (s *CeremonySim) adoptFork(r *Replica) (*ForkAnswer, error) {
	w := s.W
	peer := w.View()
	r.enter()
	own := r.Chain.GetTopBlockHashes(100)
	peer.enter()
	fork := peer.Chain.ReadBlockForForkedPeer(own)
	fa := &ForkAnswer{}
	if len(fork) == 0 {
		return fa, fmt.Errorf("harness: the peer has no fork answer")
	}
	for _, bb := range fork {
		fa.Blocks = append(fa.Blocks, bb.Block)
		if bb.Block.Header.Flags().HasFlag(types.ValidationFinished) {
			fa.HasFinal = true
		}
		if !fa.HasFinal {
			for _, tx := range bb.Block.Body.Transactions {
				if _, ok := types.CeremonialTxs[tx.Type]; ok {
					fa.CeremonyTxs++
				}
			}
		}
	}
	if fork[len(fork)-1].Cert.Empty() {
		return fa, fmt.Errorf("harness: no quorum certificate for the fork tip")
	}
	r.enter()
	res := consensus.NewForkResolver(nil, nil, r.Chain, r.Stats)
	if err := res.VerifProcessBlocks(fork); err != nil {
		return fa, fmt.Errorf("processBlocks: %w", err)
	}
	if !res.HasLoadedFork() {
		return fa, fmt.Errorf("processBlocks: no applicable fork")
	}
	reverted, err := res.ApplyFork()
	if err != nil {
		return fa, fmt.Errorf("ApplyFork: %w", err)
	}
	fa.Reverted = reverted
	for _, b := range fa.Blocks {
		r.addCert(b)
	}
	if len(reverted) > 0 {
		r.TxPool.AddExternalTxs(validation.MempoolTx, reverted...)
	}
	for r.Head().Height() < peer.Head().Height() {
		b := peer.Chain.GetBlockByHeight(r.Head().Height() + 1)
		if b == nil {
			return fa, fmt.Errorf("harness: the peer has no block %d", r.Head().Height()+1)
		}
		if err := r.AddBlock(b); err != nil {
			return fa, fmt.Errorf("sync after the fork switch, block %d: %w", b.Height(), err)
		}
		fa.SyncedBlocks++
	}
	if r.Head().Hash() != peer.Head().Hash() {
		return fa, fmt.Errorf("not on the canonical head after the fork switch")
	}
	return fa, nil
}

// Resync wipes a replica and lets it synchronise the canonical chain from genesis block by
// block (what an operator does with a node that cannot follow any more).
func (s *CeremonySim) Resync(r *Replica) error {
	w := s.W
	r.Alive = false
	r.DB = dbm.NewMemDB()
	if err := r.boot(); err != nil {
		r.Alive = false
		return err
	}
	for _, b := range w.Blocks {
		if err := r.AddBlock(b); err != nil {
			r.Alive = false
			return fmt.Errorf("block %d: %w", b.Height(), err)
		}
		if b.Header.Flags().HasFlag(types.FlipLotteryStarted) && r.Real() != nil && !r.Real().WaitLottery(20*time.Second) {
			r.Alive = false
			return fmt.Errorf("flip lottery calculation did not finish")
		}
	}
	return nil
}

// lateRejoin: the targets of a Late history come back after the network finished the validation.
func (s *CeremonySim) lateRejoin() {
	rp := s.Reorg
	if rp == nil || !rp.Late || len(rp.lateSeen) == 0 {
		return
	}
	rp.Reverted = map[common.Address]map[types.TxType]bool{}
	rp.LateRefused, rp.LateRefusedAgain = map[*Replica]error{}, map[*Replica]error{}
	for _, r := range rp.lateSeen {
		r.Alive = true
		delete(rp.CutOff, r)
		fa, err := s.adoptFork(r)
		rp.LateAnswer = fa
		if err != nil {
			rp.LateRefused[r] = err
			// does a restart (ceremony state rebuilt from the database) help?
			if e := r.Restart(); e == nil {
				if fa, err = s.adoptFork(r); err != nil {
					rp.LateRefusedAgain[r] = err
				}
			}
		}
		if err != nil {
			r.Alive = false
			continue
		}
		rp.Reorganised = append(rp.Reorganised, r)
		rp.noteReverted(fa.Reverted)
	}
	rp.lateSeen = nil
	rp.Happened = true
}

// Finish produces blocks through the after-long period until the validation-finishing block
// was applied. Returns that block (nil if the world stopped).
func (s *CeremonySim) Finish() *types.Block {
	w := s.W
	st := w.View().AppState.State
	epoch := st.Epoch()
	announced := false
	for i := 0; i < 120 && !s.Stopped; i++ {
		if !announced && st.ValidationPeriod() == state.AfterLongSessionPeriod {
			announced = true
			if s.OnPhase != nil {
				s.OnPhase("afterlong")
			}
		}
		if s.reorgReady() {
			s.answersReorg()
			if s.Stopped {
				return nil
			}
			continue
		}
		res := s.Step(20 * time.Second)
		if s.Stopped || res == nil {
			return nil
		}
		if res.Block.Header.Flags().HasFlag(types.ValidationFinished) {
			if st.Epoch() != epoch+1 {
				s.Rep.Note("validation finished but epoch did not advance")
			}
			s.EpochNo++
			s.lateRejoin()
			return res.Block
		}
	}
	return nil
}

// RunEpoch drives one complete epoch. Returns the validation-finishing block.
func (s *CeremonySim) RunEpoch() *types.Block {
	if !s.PreLottery() || !s.ToLottery() || !s.ShortSession() || !s.LongSession() {
		return nil
	}
	return s.Finish()
}

func (pl *EpochPlan) Describe() map[string]interface{} {
	cls := map[string]int{}
	for _, b := range pl.Beh {
		cls[b.Class]++
	}
	var byShard, flipsByShard []int
	for sh := common.ShardId(1); sh <= common.ShardId(pl.NShards); sh++ {
		byShard = append(byShard, len(pl.CandsBy[sh]))
		flipsByShard = append(flipsByShard, len(pl.FlipsBy[sh]))
	}
	return map[string]interface{}{"epoch": pl.Epoch, "candidates": len(pl.Cands), "non_candidates": len(pl.NonCands), "flips": len(pl.Flips),
		"shards": pl.NShards, "candidates_by_shard": byShard, "flips_by_shard": flipsByShard, "planted_late_committers": len(pl.Planted),
		"behaviours": cls, "transitive_chain_links": maxInt(len(pl.Chain3)-1, 0), "invites": len(pl.Invites), "unactivated": len(pl.NoActiv)}
}

func fmtAddr(a common.Address) string { return fmt.Sprintf("%x", a[:4]) }
