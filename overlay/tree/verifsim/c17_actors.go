package verifsim

// Actor driver for REAL validation ceremonies (engine E1, property C17; reusable by other
// properties that want real epochs). The harness holds every key. Per epoch it lets
// identities invite / activate / delegate (also transitive shapes) / kill themselves / submit
// flips (content stored through the real Flipper into the shared content store), then walks
// the virtual clock through flip lottery -> short session -> long session -> after-long and
// lets every ceremony candidate play a PRNG-chosen behaviour: answers hash, short answers
// (consistent or deliberately inconsistent salt / words rnd), long answers with grades and
// reports derived from a per-flip "truth" and a per-actor accuracy, evidence bitmaps.
// Transactions reach the replicas' mempools like gossip would: per replica in a different
// order, with loss, with delay (= at a different virtual time), or not at all.

import (
	"bytes"
	"encoding/binary"
	"fmt"
	"sort"
	"time"

	"github.com/idena-network/idena-go/blockchain/attachments"
	"github.com/idena-network/idena-go/blockchain/types"
	"github.com/idena-network/idena-go/blockchain/validation"
	"github.com/idena-network/idena-go/common"
	"github.com/idena-network/idena-go/core/flip"
	"github.com/idena-network/idena-go/core/state"
	"github.com/idena-network/idena-go/crypto"
	"github.com/idena-network/idena-go/crypto/ecies"
	"github.com/idena-network/idena-go/crypto/vrf/p256"
	"github.com/idena-network/idena-go/verifutil"
)

// NetProfile says how submitted transactions reach one replica's mempool.
type NetProfile struct {
	Blind    bool // never gets anything before inclusion in a block
	LossPct  int  // chance that a tx never arrives
	MaxDelay int  // arrival delayed by 0..MaxDelay blocks
}

type delayedTx struct {
	due int
	raw []byte
}

// Behaviour of one ceremony candidate in one epoch.
type Behaviour struct {
	Class      string
	Accuracy   float64
	Hash       bool // sends the answers hash in the short session
	LateHash   bool // ... but only in the long session
	Short      bool // reveals short answers
	Long       bool // sends long answers
	WrongSalt  bool // long attachment carries a salt that does not reproduce the hash
	WrongRnd   bool // short attachment carries a words rnd that does not match the VRF proof
	Evidence   int  // 0 none, 1 honest bitmap, 2 lazy (random bits dropped), 3 empty bitmap
	ReportProb float64
}

// EpochPlan holds what the harness knows about the running epoch.
type EpochPlan struct {
	Epoch     uint16
	Truth     map[string]types.Answer // cid -> correct answer
	Bad       map[string]bool         // cid -> deserves a report
	Cands     []common.Address        // ceremony candidates in lottery order (shard 1)
	CandIdx   map[common.Address]int
	NonCands  []common.Address
	Flips     [][]byte
	ShortIdx  map[common.Address][]int
	LongIdx   map[common.Address][]int
	Beh       map[common.Address]*Behaviour
	InBlock   map[common.Address]map[types.TxType]uint64 // ceremony tx types included in blocks -> height
	HashSeen  map[common.Address]bool                    // answers hash offered to the network inside the short session
	Chain3    []common.Address                           // A,P,Q,R of the transitive delegation chain built this epoch (if any)
	Salt      map[common.Address][]byte
	ShortAns  map[common.Address][]byte
	Proof     map[common.Address][]byte
	Rnd       map[common.Address]uint64
	LackFlips map[common.Address]bool // deliberately submitted fewer flips than required
	Killed    map[common.Address]bool // sent a KillTx before the lottery
	Invites   []*Actor                // invite keys created this epoch
	NoActiv   map[common.Address]bool // invites deliberately left unactivated
}

// CeremonySim drives real ceremonies on a world.
type CeremonySim struct {
	W        *World
	R        *verifutil.Rng
	Rep      *verifutil.Report
	Profiles map[*Replica]*NetProfile
	queues   map[*Replica][]delayedTx
	blockNo  int
	Plan     *EpochPlan
	EpochNo  int // epochs driven so far
	seq      int
	// hooks
	OnStep      func(res *BlockResult)  // after every successfully distributed block
	OnPhase     func(phase string)      // "lottery", "short", "long", "afterlong" (right after the flagged block)
	BeforeFinal func() bool             // the next block will finish the validation; false = do not produce it, stop the world
	OnRefused   func(res *BlockResult)  // a replica refused a block
	Stopped     bool                    // a block was refused: the world is no longer usable
	ChainLinks  int                     // transitive delegation shape to build this epoch: 0 none, 2 = A->P->Q, 3 = A->P->Q->R
	Reliable    map[common.Address]bool // senders whose txs are never lost or delayed (besides node owners)
	Included    map[string]int
	Debug       bool
	dbgFlips    map[common.Address][]string
}

func NewCeremonySim(w *World, r *verifutil.Rng, rep *verifutil.Report) *CeremonySim {
	s := &CeremonySim{W: w, R: r, Rep: rep, Profiles: map[*Replica]*NetProfile{}, queues: map[*Replica][]delayedTx{}, Included: map[string]int{},
		Reliable: map[common.Address]bool{}, dbgFlips: map[common.Address][]string{}}
	return s
}

func (s *CeremonySim) profile(r *Replica) *NetProfile {
	if p, ok := s.Profiles[r]; ok {
		return p
	}
	if r.Observer {
		return &NetProfile{Blind: true}
	}
	return &NetProfile{LossPct: 12, MaxDelay: 2}
}

// Gossip offers a tx to the replicas' mempools according to their network profiles. Replica 0
// (the harness' reference view, which also numbers nonces) gets everything at once. Every
// replica receives its own decoded copy, as over a wire.
func (s *CeremonySim) Gossip(tx *types.Transaction) error {
	raw, err := tx.ToBytes()
	if err != nil {
		return err
	}
	var first error
	from := senderOf(tx)
	reliable := s.Reliable[from] || s.isNodeOwner(from)
	for i, r := range s.W.Replicas {
		if !r.Alive {
			continue
		}
		if i == 0 {
			first = s.deliver(r, raw)
			continue
		}
		p := s.profile(r)
		if p.Blind || !reliable && s.R.Intn(100) < p.LossPct {
			continue
		}
		d := 0
		if !reliable && p.MaxDelay > 0 && s.R.Intn(3) == 0 {
			d = s.R.Range(1, p.MaxDelay)
		}
		s.queues[r] = append(s.queues[r], delayedTx{due: s.blockNo + d, raw: raw})
	}
	return first
}

func (s *CeremonySim) deliver(r *Replica, raw []byte) error {
	tx := new(types.Transaction)
	if err := tx.FromBytes(raw); err != nil {
		return err
	}
	r.enter()
	err := r.TxPool.AddExternalTxs(validation.InboundTx, tx)
	if err != nil && s.Debug {
		s.Rep.Count("dbg_deliver_"+TxName(tx.Type)+"_"+ErrClass(err), 1)
	}
	return err
}

// resync models the periodic mempool synchronisation between peers: every third block each
// gossiping replica gets, with probability 1/2 per tx, what the reference pool still holds.
func (s *CeremonySim) resync() {
	if s.blockNo%3 != 0 {
		return
	}
	pending := s.W.Replicas[0].TxPool.VerifAll()
	if len(pending) == 0 {
		return
	}
	sort.Slice(pending, func(i, j int) bool { return pending[i].AccountNonce < pending[j].AccountNonce })
	for i, r := range s.W.Replicas {
		if i == 0 || !r.Alive || s.profile(r).Blind {
			continue
		}
		for _, tx := range pending {
			if s.R.Bool() && r.TxPool.GetTx(tx.Hash()) == nil {
				if raw, err := tx.ToBytes(); err == nil {
					s.deliver(r, raw)
				}
			}
		}
	}
}

// flush delivers what is due, per replica in a PRNG order.
func (s *CeremonySim) flush() {
	s.resync()
	for _, r := range s.W.Replicas {
		q := s.queues[r]
		if len(q) == 0 {
			continue
		}
		var due, rest []delayedTx
		for _, d := range q {
			if d.due <= s.blockNo {
				due = append(due, d)
			} else {
				rest = append(rest, d)
			}
		}
		s.queues[r] = rest
		if !r.Alive {
			continue
		}
		for _, k := range s.R.Perm(len(due)) {
			s.deliver(r, due[k].raw)
		}
	}
}

// Step delivers due gossip, advances the clock and produces one block.
func (s *CeremonySim) Step(dt time.Duration) *BlockResult {
	w := s.W
	s.flush()
	st := w.View().AppState.State
	if s.BeforeFinal != nil && st.ValidationPeriod() == state.AfterLongSessionPeriod && st.CanCompleteEpoch() {
		if !s.BeforeFinal() {
			s.Stopped = true
			return nil
		}
	}
	now := w.Now()
	if ht := w.HeadTime(); now.Before(ht) {
		now = ht
	}
	setClock(now.Add(dt))
	res := w.NextBlock(0)
	s.blockNo++
	if len(res.Errs) > 0 {
		s.Stopped = true
		if s.OnRefused != nil {
			s.OnRefused(res)
		}
		return res
	}
	b := res.Block
	for _, tx := range b.Body.Transactions {
		s.Included[TxName(tx.Type)]++
		if _, ok := types.CeremonialTxs[tx.Type]; ok && s.Plan != nil {
			a := senderOf(tx)
			m := s.Plan.InBlock[a]
			if m == nil {
				m = map[types.TxType]uint64{}
				s.Plan.InBlock[a] = m
			}
			if _, dup := m[tx.Type]; !dup {
				m[tx.Type] = b.Height()
			}
		}
	}
	if s.OnStep != nil {
		s.OnStep(res)
	}
	return res
}

func (s *CeremonySim) steps(n int, dt time.Duration) bool {
	for i := 0; i < n && !s.Stopped; i++ {
		s.Step(dt)
	}
	return !s.Stopped
}

func (s *CeremonySim) submit(a *Actor, t types.TxType, to *common.Address, amount int64, payload []byte) error {
	var amt = Dna(amount)
	if amount == 0 {
		amt = nil
	}
	return s.Gossip(s.W.Tx(a, t, to, amt, payload))
}

func (s *CeremonySim) delegateeOf(a common.Address) *common.Address {
	id := s.W.Identity(a)
	return id.Delegatee()
}

func (s *CeremonySim) isNodeOwner(a common.Address) bool {
	w := s.W
	if a == w.God.Addr {
		return true
	}
	for _, n := range w.Nodes {
		if n.Addr == a {
			return true
		}
	}
	return false
}

// identities returns the actors that have an identity object, in address order.
func (s *CeremonySim) identities() []*Actor {
	w := s.W
	var out []*Actor
	w.View().AppState.State.IterateOverIdentities(func(addr common.Address, _ state.Identity) {
		if a, ok := w.ByAddr[addr]; ok {
			out = append(out, a)
		}
	})
	sort.Slice(out, func(i, j int) bool { return bytes.Compare(out[i].Addr[:], out[j].Addr[:]) < 0 })
	return out
}

// ------------------------------------------------------------------ pre-lottery phase

// PreLottery runs the epoch's ordinary life: invitations, activations, delegations in three
// batches (so that transitive shapes can form), self-kills, flip submissions.
func (s *CeremonySim) PreLottery() bool {
	w, r := s.W, s.R
	st := w.View().AppState.State
	pl := &EpochPlan{Epoch: st.Epoch(), Truth: map[string]types.Answer{}, Bad: map[string]bool{}, CandIdx: map[common.Address]int{},
		ShortIdx: map[common.Address][]int{}, LongIdx: map[common.Address][]int{}, Beh: map[common.Address]*Behaviour{},
		InBlock: map[common.Address]map[types.TxType]uint64{}, HashSeen: map[common.Address]bool{}, Salt: map[common.Address][]byte{},
		ShortAns: map[common.Address][]byte{}, Proof: map[common.Address][]byte{}, Rnd: map[common.Address]uint64{},
		LackFlips: map[common.Address]bool{}, Killed: map[common.Address]bool{}, NoActiv: map[common.Address]bool{}}
	s.Plan = pl
	dsr := int(w.Cons.DelegationSwitchRange)

	// 1. invitations by god and by identities that hold invites
	nInv := r.Range(3, 5)
	if s.ChainLinks > 0 && nInv < 4 {
		nInv = 4
	}
	for i := 0; i < nInv; i++ {
		s.seq++
		inv := w.AddActor("c17inv", s.seq+1000*s.EpochNo)
		if err := s.submit(w.God, types.InviteTx, &inv.Addr, 40, nil); err == nil {
			pl.Invites = append(pl.Invites, inv)
		}
	}
	for _, a := range s.identities() {
		id := w.Identity(a.Addr)
		if id.Invites > 0 && a != w.God && r.Intn(2) == 0 {
			s.seq++
			inv := w.AddActor("c17inv", s.seq+1000*s.EpochNo)
			if err := s.submit(a, types.InviteTx, &inv.Addr, 5, nil); err == nil {
				pl.Invites = append(pl.Invites, inv)
			}
		}
	}
	if !s.steps(2, 20*time.Second) {
		return false
	}
	// 2. activations: most invites are activated (to a fresh address or in place), some are left alone
	var fresh []*Actor
	for i, inv := range pl.Invites {
		if w.Identity(inv.Addr).State != state.Invite {
			continue
		}
		if i >= 2 && r.Intn(4) == 0 {
			pl.NoActiv[inv.Addr] = true
			continue
		}
		dst := inv
		if r.Bool() {
			s.seq++
			dst = w.AddActor("c17cand", s.seq+1000*s.EpochNo)
		}
		if err := s.submit(inv, types.ActivationTx, &dst.Addr, 0, dst.Pub); err == nil {
			fresh = append(fresh, dst)
		}
	}
	if !s.steps(2, 20*time.Second) {
		return false
	}
	var cands []*Actor
	for _, a := range fresh {
		if w.Identity(a.Addr).State == state.Candidate {
			cands = append(cands, a)
		}
	}

	// 3. delegations. Batch 1: A->P (both not validated, so P does not become a pool in the
	// validators cache), ordinary delegations to a pool; batch 2: P->Q; batch 3: Q->R.
	vc := w.View().AppState.ValidatorsCache
	free := func(exclude map[common.Address]bool, pred func(id state.Identity) bool) *Actor {
		l := s.identities()
		off := r.Intn(len(l) + 1)
		for i := range l {
			a := l[(i+off)%len(l)]
			id := w.Identity(a.Addr)
			if exclude[a.Addr] || s.isNodeOwner(a.Addr) || id.Delegatee() != nil || vc.IsPool(a.Addr) || st.DelegationSwitch(a.Addr) != nil ||
				id.State == state.Killed || id.State == state.Undefined || id.State == state.Invite {
				continue
			}
			if pred == nil || pred(id) {
				return a
			}
		}
		return nil
	}
	used := map[common.Address]bool{}
	notValidated := func(id state.Identity) bool {
		return id.State == state.Candidate || id.State == state.Suspended || id.State == state.Zombie
	}
	validated := func(id state.Identity) bool { return id.State.NewbieOrBetter() }
	var A, P, Q, R *Actor
	if s.ChainLinks >= 2 {
		if len(cands) >= 2 && r.Intn(3) != 0 {
			A, P = cands[0], cands[1]
		} else {
			A = free(used, notValidated)
			if A != nil {
				used[A.Addr] = true
				P = free(used, notValidated)
			}
		}
		if A != nil && P != nil {
			used[A.Addr], used[P.Addr] = true, true
			Q = free(used, validated)
			if Q != nil && s.ChainLinks >= 3 {
				used[Q.Addr] = true
				R = free(used, validated)
				if R != nil {
					used[R.Addr] = true
				}
			}
		}
	}
	for _, x := range []*Actor{A, P, Q, R} {
		if x != nil {
			s.Reliable[x.Addr] = true
		}
	}
	if A != nil && P != nil {
		s.submit(A, types.DelegateTx, &P.Addr, 0, nil)
	}
	// ordinary pool: two or three identities delegate to one pool owner
	if pool := free(used, validated); pool != nil {
		used[pool.Addr] = true
		for k := 0; k < r.Range(1, 3); k++ {
			if d := free(used, nil); d != nil {
				used[d.Addr] = true
				s.submit(d, types.DelegateTx, &pool.Addr, 0, nil)
			}
		}
	}
	// an existing delegator leaves its pool now and then
	for _, a := range s.identities() {
		id := w.Identity(a.Addr)
		if id.Delegatee() != nil && id.DelegationEpoch != st.Epoch() && r.Intn(4) == 0 {
			s.submit(a, types.UndelegateTx, nil, 0, nil)
		}
	}
	if !s.steps(dsr+3, 20*time.Second) {
		return false
	}
	// self-kills (KillTx is refused from the flip lottery on, so "killed during the epoch" means here)
	for _, a := range s.identities() {
		id := w.Identity(a.Addr)
		if s.isNodeOwner(a.Addr) || used[a.Addr] {
			continue
		}
		if (id.State == state.Verified || id.State == state.Human || id.State == state.Suspended || id.State == state.Zombie) && r.Intn(14) == 0 {
			if s.submit(a, types.KillTx, nil, 0, nil) == nil {
				pl.Killed[a.Addr] = true
			}
		}
	}
	if P != nil && Q != nil && s.delegateeOf(A.Addr) != nil {
		s.submit(P, types.DelegateTx, &Q.Addr, 0, nil)
	}
	if !s.steps(dsr+3, 20*time.Second) {
		return false
	}
	if Q != nil && R != nil && s.delegateeOf(P.Addr) != nil {
		s.submit(Q, types.DelegateTx, &R.Addr, 0, nil)
	}
	// 4. flips
	s.submitFlips()
	if !s.steps(dsr+3, 20*time.Second) {
		return false
	}
	if A != nil && P != nil && Q != nil {
		da, dp, dq := s.delegateeOf(A.Addr), s.delegateeOf(P.Addr), s.delegateeOf(Q.Addr)
		if R != nil && da != nil && dp != nil && dq != nil && *da == P.Addr && *dp == Q.Addr && *dq == R.Addr {
			pl.Chain3 = []common.Address{A.Addr, P.Addr, Q.Addr, R.Addr}
		} else if da != nil && dp != nil && *da == P.Addr && *dp == Q.Addr {
			pl.Chain3 = []common.Address{A.Addr, P.Addr, Q.Addr}
		}
	}
	s.submitFlips() // a second round for those whose earlier flip txs were lost on the way
	return s.steps(2, 20*time.Second)
}

// submitFlips lets every identity that may author flips submit them: content goes through a
// real Flipper (which stores it in the content store and offers the tx to its node's pool),
// the tx is gossiped to the other replicas.
func (s *CeremonySim) submitFlips() {
	w, r, pl := s.W, s.R, s.Plan
	for _, a := range s.identities() {
		id := w.Identity(a.Addr)
		if id.State < state.Candidate || id.State == state.Killed || pl.Killed[a.Addr] {
			continue
		}
		max := int(id.GetMaximumAvailableFlips())
		have := len(id.Flips)
		// count flips still waiting in the reference pool
		pending := int(w.NextNonce(a)) - int(w.StateNonce(a))
		want := max
		if a == w.God {
			// now and then god does not make its flips and drops out of the candidates
			if _, decided := pl.LackFlips[a.Addr]; !decided {
				pl.LackFlips[a.Addr] = id.RequiredFlips > 0 && r.Intn(8) == 0
			}
			if pl.LackFlips[a.Addr] {
				want = int(id.RequiredFlips) - 1
			}
		}
		if !s.isNodeOwner(a.Addr) {
			if _, decided := pl.LackFlips[a.Addr]; !decided {
				pl.LackFlips[a.Addr] = id.RequiredFlips > 0 && r.Intn(9) == 0
			}
			if pl.LackFlips[a.Addr] {
				want = int(id.RequiredFlips) - 1
			} else if r.Intn(3) == 0 {
				want = int(id.RequiredFlips) // no extra flips
			}
		}
		if a == w.God {
			// god needs no key word pairs; its quota only binds in networks above GodValidUntilNetworkSize
		} else if id.GetTotalWordPairsCount() == 0 {
			continue // no key word pairs yet (RequiredFlips == 0): a flip tx would be refused as invalid payload
		}
		usedPairs := map[uint8]bool{}
		for _, f := range id.Flips {
			usedPairs[f.Pair] = true
		}
		for k := have + pending; k < want; k++ {
			pair := uint8(0)
			for usedPairs[pair] {
				pair++
			}
			usedPairs[pair] = true
			pub := append([]byte("verif-flip-public-part:"), r.Bytes(r.Range(40, 400))...)
			priv := append([]byte("verif-flip-private-part:"), r.Bytes(r.Range(40, 400))...)
			ipf := &flip.IpfsFlip{PubKey: a.Pub, PublicPart: pub, PrivatePart: priv}
			data, _ := ipf.ToBytes()
			c, err := w.sharedIpfs().Cid(data)
			if err != nil {
				continue
			}
			tx := w.Tx(a, types.SubmitFlipTx, nil, nil, attachments.CreateFlipSubmitAttachment(c.Bytes(), pair))
			// through the Flipper of a PRNG-chosen gossiping replica
			var entry *Replica
			for _, k := range r.Perm(len(w.Replicas)) {
				if x := w.Replicas[k]; x.Alive && x.Real() != nil && !s.profile(x).Blind {
					entry = x
					break
				}
			}
			if entry == nil {
				continue
			}
			entry.enter()
			raw, _ := tx.ToBytes()
			own := new(types.Transaction)
			own.FromBytes(raw)
			if err := entry.Real().Flipper.AddNewFlip(&types.Flip{Tx: own, PublicPart: pub, PrivatePart: priv}, true); err != nil {
				s.Rep.Count("flip_refused_by_flipper", 1)
				continue
			}
			s.Gossip(tx)
			key := string(c.Bytes())
			if r.Bool() {
				pl.Truth[key] = types.Left
			} else {
				pl.Truth[key] = types.Right
			}
			if r.Intn(9) == 0 && !s.isNodeOwner(a.Addr) {
				pl.Bad[key] = true
			}
			s.Rep.Count("flips_submitted", 1)
			if s.Debug {
				s.dbgFlips[a.Addr] = append(s.dbgFlips[a.Addr], fmt.Sprintf("n%d@b%d via %s", tx.AccountNonce, s.blockNo, entry.Name))
			}
		}
	}
}

// ------------------------------------------------------------------ the ceremony itself

func (s *CeremonySim) chooseBehaviour(a common.Address, id state.Identity) *Behaviour {
	r := s.R
	b := &Behaviour{Class: "good", Accuracy: 0.93 + 0.07*r.Float(), Hash: true, Short: true, Long: true, Evidence: 1, ReportProb: 0.85}
	if s.isNodeOwner(a) {
		b.Accuracy = 1
		return b
	}
	if s.Plan != nil {
		for i, c := range s.Plan.Chain3 {
			if i < 2 && c == a {
				b.Accuracy = 1 // A and P of the transitive chain are meant to pass
				return b
			}
		}
	}
	switch r.Pick(50, 12, 6, 8, 4, 3, 3, 3, 3, 4) {
	case 1:
		b.Class, b.Accuracy = "mediocre", 0.6+0.25*r.Float()
	case 2:
		b.Class, b.Accuracy = "bad", 0.3+0.25*r.Float()
	case 3:
		b.Class, b.Hash, b.Short, b.Long, b.Evidence = "missAll", false, false, false, 0
	case 4:
		b.Class, b.Long, b.Evidence = "missLong", false, 0
	case 5:
		b.Class, b.Short = "missReveal", false
	case 6:
		b.Class, b.Hash = "noHash", false
	case 7:
		b.Class, b.WrongSalt = "wrongSalt", true
	case 8:
		b.Class, b.WrongRnd = "wrongRnd", true
	case 9:
		b.Class, b.LateHash = "lateHash", true
	}
	if b.Evidence == 1 {
		switch r.Pick(60, 22, 12, 6) {
		case 1:
			b.Evidence = 0
		case 2:
			b.Evidence = 2
		case 3:
			b.Evidence = 3
		}
	}
	return b
}

func (s *CeremonySim) allReal() []*Replica {
	var l []*Replica
	for _, r := range s.W.Replicas {
		if r.Alive && r.Real() != nil {
			l = append(l, r)
		}
	}
	return l
}

// ToLottery jumps the clock to shortly before the flip lottery and produces blocks until the
// lottery has started; then waits for every replica's (asynchronous) lottery calculation.
func (s *CeremonySim) ToLottery() bool {
	w := s.W
	st := w.View().AppState.State
	nvt := st.NextValidationTime()
	target := nvt.Add(-w.Opt.FlipLottery - time.Duration(s.R.Range(5, 50))*time.Second)
	if w.Now().Before(target) {
		setClock(target)
	}
	for i := 0; st.ValidationPeriod() != state.FlipLotteryPeriod; i++ {
		if i > 50 || s.Stopped {
			return false
		}
		s.Step(20 * time.Second)
	}
	for _, r := range s.allReal() {
		if !r.Real().WaitLottery(20 * time.Second) {
			s.Rep.Inconcl("flip lottery calculation of %s did not finish within 20 s", r.Name)
			return false
		}
	}
	if s.Debug {
		for a, l := range s.dbgFlips {
			id := w.Identity(a)
			if len(id.Flips) < len(l) {
				inPools := ""
				for _, r := range w.Replicas {
					n := 0
					for _, tx := range r.TxPool.VerifAll() {
						if senderOf(tx) == a {
							n++
						}
					}
					inPools += fmt.Sprintf(" %s:%d", r.Name, n)
				}
				s.Rep.Note("flips of %s(%s): submitted %v on chain %d required %d stateNonce %d; pools:%s", fmtAddr(a), w.ByAddr[a].Name, l, len(id.Flips), id.RequiredFlips, w.StateNonce(w.ByAddr[a])-1, inPools)
			}
		}
		s.dbgFlips = map[common.Address][]string{}
	}
	if s.OnPhase != nil {
		s.OnPhase("lottery")
	}
	// read the tables from the reference replica
	pl := s.Plan
	vc := w.View().Real().VC
	pl.Cands = vc.VerifCandidates(1)
	pl.NonCands = vc.VerifNonCandidates(1)
	pl.Flips = vc.VerifFlips(1)
	for i, c := range pl.Cands {
		pl.CandIdx[c] = i
		pl.ShortIdx[c], pl.LongIdx[c] = vc.VerifFlipsToSolve(1, i)
		pl.Beh[c] = s.chooseBehaviour(c, w.Identity(c))
	}
	return true
}

func (s *CeremonySim) answersFor(c common.Address, idx []int, long bool) *types.Answers {
	pl, r := s.Plan, s.R
	b := pl.Beh[c]
	ans := types.NewAnswers(uint(len(idx)))
	increased := 0
	reports := 0
	for i, fi := range idx {
		if len(pl.Flips) == 0 {
			break // a ceremony without any flip: the lottery hands out placeholder indexes; answer nothing
		}
		cid := pl.Flips[fi%len(pl.Flips)]
		truth := pl.Truth[string(cid)]
		if truth == types.None {
			truth = types.Left // a flip the harness did not author (none expected)
		}
		var a types.Answer
		x := r.Float()
		switch {
		case x < b.Accuracy:
			a = truth
		case x < b.Accuracy+(1-b.Accuracy)*0.15:
			a = types.None
		default:
			a = types.Left + types.Right - truth
		}
		switch a {
		case types.Left:
			ans.Left(uint(i))
		case types.Right:
			ans.Right(uint(i))
		}
		if long {
			bad := pl.Bad[string(cid)]
			switch {
			case bad && r.Float() < b.ReportProb && reports*3 < len(idx)-1:
				ans.Grade(uint(i), types.GradeReported)
				reports++
			case !bad && r.Intn(40) == 0 && reports*3 < len(idx)-1:
				ans.Grade(uint(i), types.GradeReported)
				reports++
			default:
				g := types.GradeD
				if increased == 0 && r.Intn(5) == 0 {
					g = types.Grade(r.Range(int(types.GradeC), int(types.GradeA)))
					increased++
				} else if r.Intn(6) == 0 {
					g = types.GradeNone
				}
				ans.Grade(uint(i), g)
			}
		}
	}
	return ans
}

// ShortSession moves to the validation time, starts the short session and lets candidates
// commit to their short answers.
func (s *CeremonySim) ShortSession() bool {
	w, pl := s.W, s.Plan
	st := w.View().AppState.State
	nvt := st.NextValidationTime()
	for i := 0; st.ValidationPeriod() != state.ShortSessionPeriod; i++ {
		if i > 50 || s.Stopped {
			return false
		}
		if w.Now().Before(nvt) && nvt.Sub(w.Now()) < 25*time.Second {
			setClock(nvt.Add(-19 * time.Second)) // the next block lands one second after the validation time
		}
		s.Step(20 * time.Second)
	}
	if s.OnPhase != nil {
		s.OnPhase("short")
	}
	seedBytes := st.FlipWordsSeed()
	for _, c := range pl.Cands {
		a := w.ByAddr[c]
		b := pl.Beh[c]
		if a == nil || b == nil {
			continue
		}
		signer, err := p256.NewVRFSigner(a.Key)
		if err != nil {
			continue
		}
		h, proof := signer.Evaluate(seedBytes[:])
		pl.Proof[c] = proof
		pl.Rnd[c] = binary.LittleEndian.Uint64(h[:])
		pl.Salt[c] = crypto.Keccak256([]byte("verif-salt"), c[:], []byte{byte(pl.Epoch), byte(pl.Epoch >> 8)})
		pl.ShortAns[c] = s.answersFor(c, pl.ShortIdx[c], false).Bytes()
	}
	// hashes arrive spread over the short session
	order := s.R.Perm(len(pl.Cands))
	half := len(order) / 2
	sendHash := func(c common.Address) {
		a := w.ByAddr[c]
		b := pl.Beh[c]
		if a == nil || b == nil || !b.Hash || b.LateHash {
			return
		}
		salt := pl.Salt[c]
		if b.WrongSalt {
			salt = crypto.Keccak256(salt)
		}
		hash := crypto.Hash(append(append([]byte{}, pl.ShortAns[c]...), salt...))
		if s.submit(a, types.SubmitAnswersHashTx, nil, 0, hash[:]) == nil {
			pl.HashSeen[c] = true
		}
	}
	for _, k := range order[:half] {
		sendHash(pl.Cands[k])
	}
	if !s.steps(1, 20*time.Second) {
		return false
	}
	for _, k := range order[half:] {
		sendHash(pl.Cands[k])
	}
	return true
}

// LongSession produces blocks until the long session has started, then lets the candidates
// reveal short answers, send long answers and evidence.
func (s *CeremonySim) LongSession() bool {
	w, pl, r := s.W, s.Plan, s.R
	st := w.View().AppState.State
	for i := 0; st.ValidationPeriod() != state.LongSessionPeriod; i++ {
		if i > 50 || s.Stopped {
			return false
		}
		s.Step(20 * time.Second)
	}
	if s.OnPhase != nil {
		s.OnPhase("long")
	}
	for _, k := range r.Perm(len(pl.Cands)) {
		c := pl.Cands[k]
		a, b := w.ByAddr[c], pl.Beh[c]
		if a == nil || b == nil {
			continue
		}
		if b.Hash && b.LateHash {
			hash := crypto.Hash(append(append([]byte{}, pl.ShortAns[c]...), pl.Salt[c]...))
			s.submit(a, types.SubmitAnswersHashTx, nil, 0, hash[:])
		}
		if b.Long {
			la := s.answersFor(c, pl.LongIdx[c], true)
			key := ecies.ImportECDSA(DeriveKey(w.Opt.Seed, "c17flipkey"+a.Name, int(pl.Epoch)))
			s.submit(a, types.SubmitLongAnswersTx, nil, 0, attachments.CreateLongAnswerAttachment(la.Bytes(), pl.Proof[c], pl.Salt[c], key))
		}
		if b.Short {
			rnd := pl.Rnd[c]
			if b.WrongRnd {
				rnd ^= 0x5a5a
			}
			s.submit(a, types.SubmitShortAnswersTx, nil, 0, attachments.CreateShortAnswerAttachment(pl.ShortAns[c], rnd, 1))
		}
	}
	if !s.steps(1, 20*time.Second) {
		return false
	}
	// evidence: who was seen committing in the short session
	for _, k := range r.Perm(len(pl.Cands)) {
		c := pl.Cands[k]
		a, b := w.ByAddr[c], pl.Beh[c]
		if a == nil || b == nil || b.Evidence == 0 {
			continue
		}
		bm := common.NewBitmap(uint32(len(pl.Cands)))
		if b.Evidence != 3 {
			for i, x := range pl.Cands {
				if pl.HashSeen[x] && !(b.Evidence == 2 && r.Intn(3) == 0) {
					bm.Add(uint32(i))
				}
			}
		}
		buf := new(bytes.Buffer)
		bm.WriteTo(buf)
		s.submit(a, types.EvidenceTx, nil, 0, buf.Bytes()) // refused for candidates / delegators / discriminated senders: fine
	}
	return true
}

// Finish produces blocks through the after-long period until the validation-finishing block
// was applied. Returns that block (nil if the world stopped).
func (s *CeremonySim) Finish() *types.Block {
	w := s.W
	st := w.View().AppState.State
	epoch := st.Epoch()
	announced := false
	for i := 0; i < 120 && !s.Stopped; i++ {
		if !announced && st.ValidationPeriod() == state.AfterLongSessionPeriod {
			announced = true
			if s.OnPhase != nil {
				s.OnPhase("afterlong")
			}
		}
		res := s.Step(20 * time.Second)
		if s.Stopped || res == nil {
			return nil
		}
		if res.Block.Header.Flags().HasFlag(types.ValidationFinished) {
			if st.Epoch() != epoch+1 {
				s.Rep.Note("validation finished but epoch did not advance")
			}
			s.EpochNo++
			return res.Block
		}
	}
	return nil
}

// RunEpoch drives one complete epoch. Returns the validation-finishing block.
func (s *CeremonySim) RunEpoch() *types.Block {
	if !s.PreLottery() || !s.ToLottery() || !s.ShortSession() || !s.LongSession() {
		return nil
	}
	return s.Finish()
}

func (pl *EpochPlan) Describe() map[string]interface{} {
	cls := map[string]int{}
	for _, b := range pl.Beh {
		cls[b.Class]++
	}
	return map[string]interface{}{"epoch": pl.Epoch, "candidates": len(pl.Cands), "non_candidates": len(pl.NonCands), "flips": len(pl.Flips),
		"behaviours": cls, "transitive_chain_links": maxInt(len(pl.Chain3)-1, 0), "invites": len(pl.Invites), "unactivated": len(pl.NoActiv)}
}

func fmtAddr(a common.Address) string { return fmt.Sprintf("%x", a[:4]) }
