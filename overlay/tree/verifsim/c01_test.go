package verifsim

import (
	"bytes"
	"fmt"
	"os"
	"testing"
	"time"

	"github.com/idena-network/idena-go/blockchain/types"
	"github.com/idena-network/idena-go/common"
	"github.com/idena-network/idena-go/config"
	"github.com/idena-network/idena-go/core/state"
	"github.com/idena-network/idena-go/verifutil"
	dbm "github.com/tendermint/tm-db"
)

var zones = func() []*time.Location {
	l := []*time.Location{time.FixedZone("UTC-11", -11*3600), time.UTC, time.FixedZone("UTC+13", 13*3600)}
	// zones with daylight-saving time (if the host has a tz database)
	for _, n := range []string{"Europe/Berlin", "America/New_York", "Australia/Sydney"} {
		if z, err := time.LoadLocation(n); err == nil {
			l = append(l, z)
		}
	}
	return l
}()

// mapOrderProbe iterates a small map next to each re-execution; the number of distinct
// orders it produced is evidence that the runtime really varied map iteration.
func mapOrderProbe(seen map[string]bool) {
	m := map[int]int{1: 1, 2: 2, 3: 3, 4: 4, 5: 5, 6: 6, 7: 7, 8: 8, 9: 9, 10: 10, 11: 11, 12: 12}
	s := ""
	for k := range m {
		s += fmt.Sprint(k, ",")
	}
	seen[s] = true
}

// revalidate executes block b K times on fresh private check states of r; every execution
// must accept (validateBlock compares roots, bloom, flags and both content ids with the
// header) and produce byte-identical receipts.
func revalidate(rep *verifutil.Report, r *Replica, b *types.Block, k int, orders map[string]bool) {
	var first []byte
	for i := 0; i < k; i++ {
		r.enter()
		mapOrderProbe(orders)
		_, rc, err := r.Chain.VerifValidateOnCheck(b)
		rep.Eval(1)
		rep.Count("revalidations", 1)
		if err != nil {
			rep.Violation("revalidation-differs:"+ErrClass(err)+":"+BlockKind(b)+":"+TxTypesOf(b), fmt.Sprintf("re-execution %d of block %d (%s) on %s: %v (an earlier execution of the same block on the same state accepted / built it)",
				i, b.Height(), BlockKind(b), r.Name, err), DescribeBlock(b))
			return
		}
		rb, _ := rc.ToBytes()
		if i == 0 {
			first = rb
		} else if !bytes.Equal(first, rb) {
			rep.Violation("receipts-differ:"+BlockKind(b)+":"+TxTypesOf(b), fmt.Sprintf("re-execution %d of block %d on %s produced different receipt bytes", i, b.Height(), r.Name), DescribeBlock(b))
			return
		}
	}
}

func TestVerifC01Chain(t *testing.T) {
	if !verifutil.Enabled() {
		t.Skip("verif harness")
	}
	rep := verifutil.NewReport()
	defer rep.Write()
	nScen := verifutil.Scale(2, 8)
	steps := verifutil.Scale(230, 420)
	K := verifutil.Scale(3, 8)
	orders := map[string]bool{}
	for sc := 0; sc < nScen; sc++ {
		seed := scenSeed(sc)
		o := optsFor(sc, seed)
		large := verifutil.Shard()%4 == 3 && sc == 0 // a large network reaches the weekday branch of the epoch length
		if large {
			o.NIdent, o.NAccounts, o.ValidationInterval, o.ZeroStakes, o.AllValidated = 560, 3, 0, false, true
			o.FirstCeremonyIn = 25 * time.Minute
		}
		if sc%2 == 1 && !large {
			// start shortly before a clock change of the DST zones; small networks have epochs of a few days
			o.StartTime = []time.Time{time.Date(2024, 3, 28, 9, 0, 0, 0, time.UTC), time.Date(2024, 10, 24, 9, 0, 0, 0, time.UTC),
				time.Date(2024, 3, 7, 9, 0, 0, 0, time.UTC), time.Date(2024, 11, 1, 9, 0, 0, 0, time.UTC), time.Date(2024, 4, 4, 9, 0, 0, 0, time.UTC)}[(sc/2+verifutil.Shard())%5]
			o.ValidationInterval = 0
			o.FirstCeremonyIn = 30 * time.Minute
		}
		w := NewWorld(o)
		for i, r := range w.Replicas {
			r.Zone = zones[(i+sc+verifutil.Shard())%len(zones)]
		}
		// history diversity: a replica that is restarted, one that takes detours (rollback +
		// re-apply), both must keep accepting the canonical blocks
		restarter := w.NewReplica(w.God, dbm.NewMemDB())
		restarter.Name, restarter.Observer, restarter.Zone = "restarter", true, zones[(sc+3)%len(zones)]
		detour := w.NewReplica(w.God, dbm.NewMemDB())
		detour.Name, detour.Observer, detour.Zone = "detour", true, zones[(sc+4)%len(zones)]
		if !startScenario(w, rep, true) {
			w.Cleanup()
			continue
		}
		s := NewScenario(w, verifutil.NewRng(seed, 1))
		s.Hostile, s.MaxTxs = 15, 6
		if large {
			s.MaxTxs = 3
		}
		nsteps := steps
		if large {
			nsteps = 130
		}
		var chainLog bytes.Buffer
		// a node that is catching up: it takes the canonical blocks in batches through the path a
		// full sync uses (protocol/full.go: one ForCheckWithOverwrite view per batch, AddBlock with
		// that view, FinalizePrecommit after each block) and, every other batch, first examines the
		// batch the way a fork offer is examined (ValidateSubChain)
		var syncer *Replica
		syncNext, syncBatch, syncDead := 0, 1, false
		if sr, err := tmpReplica(w, w.God, dbm.NewMemDB(), "syncer"); err == nil {
			syncer = sr
			syncer.Zone = zones[(sc+5)%len(zones)]
		}
		catchUp := func() {
			if syncer == nil || syncDead || len(w.Blocks)-syncNext < syncBatch {
				return
			}
			pending := w.Blocks[syncNext:]
			syncer.enter()
			if s.R.Bool() && syncer.Head().Height() > 1 {
				var bundles []types.BlockBundle
				for _, ob := range pending {
					bundles = append(bundles, types.BlockBundle{Block: ob, Cert: w.Certs[ob.Hash()]})
				}
				rep.Count("batches_examined_as_fork", 1)
				if err := syncer.Chain.ValidateSubChain(syncer.Head().Height(), bundles); err != nil {
					rep.Violation("replicas-disagree:fork-examination-path:"+ErrClass(err), fmt.Sprintf("scenario %d: canonical blocks %d..%d, accepted by every replica, are refused by ValidateSubChain on a node whose head is their parent: %v",
						sc, pending[0].Height(), pending[len(pending)-1].Height(), err), DescribeBlock(pending[0]))
					syncDead = true
					return
				}
			}
			cs, err := syncer.AppState.ForCheckWithOverwrite(syncer.Head().Height())
			if err != nil {
				rep.Note("syncer: ForCheckWithOverwrite failed: %v", err)
				syncDead = true
				return
			}
			for _, ob := range pending {
				if err := syncer.Chain.AddBlock(ob, cs, syncer.Stats); err != nil {
					rep.Violation("replicas-disagree:full-sync-path:"+ErrClass(err)+":"+BlockKind(ob), fmt.Sprintf("scenario %d: canonical block %d (%s), accepted by every replica, is refused by a node that applies it the way a full sync does (batch of %d, shared check view): %v",
						sc, ob.Height(), BlockKind(ob), len(pending), err), DescribeBlock(ob))
					syncDead = true
					return
				}
				if err := cs.FinalizePrecommit(ob); err != nil {
					rep.Note("syncer: FinalizePrecommit failed: %v", err)
					syncDead = true
					return
				}
				rep.Count("blocks_applied_through_full_sync_path", 1)
			}
			rep.Count("full_sync_batches", 1)
			rep.Max("max_full_sync_batch", len(pending))
			syncNext = len(w.Blocks)
			syncBatch = s.R.Range(1, 9)
			ref := w.Replicas[0]
			if ref.Head().Hash() == syncer.Head().Hash() {
				if a, b := DigestState(ref.AppState), DigestState(syncer.AppState); a != b {
					rep.Violation("replicas-disagree:full-sync-path:state", fmt.Sprintf("scenario %d: at head %d the node that synced in batches holds a different state than %s: %s", sc, ref.Head().Height(), ref.Name, FirstStateDiff(StateKV(ref.AppState), StateKV(syncer.AppState))), nil)
					syncDead = true
				}
				rep.Count("full_sync_state_comparisons", 1)
			}
		}
		for i := 0; i < nsteps; i++ {
			rep.Progress("C01 scenario %d seed %d step %d", sc, seed, i)
			if i%5 == 0 {
				for _, g := range w.Burst(s.R) {
					s.SubmitGen(g)
				}
			}
			w.beforeDistribute = func(b *types.Block, p *Replica) {
				// map-order / schedule diversity: K re-executions on the proposer and on another replica
				n := 0
				if p != nil {
					revalidate(rep, p, b, K, orders)
					n++
				}
				for _, r := range w.Replicas {
					if r != p && r.Alive && n < 2 {
						revalidate(rep, r, b, K, orders)
						n++
					}
				}
			}
			res := s.Step()
			w.beforeDistribute = nil
			if len(res.Errs) > 0 {
				for n, e := range res.Errs {
					who := "-"
					if res.Proposer != nil {
						who = res.Proposer.Name + "@" + res.Proposer.Zone.String()
					}
					rn := n
					for _, r := range w.Replicas {
						if r.Name == n && r.Zone != nil {
							rn = n + "@" + r.Zone.String()
						}
					}
					rep.Violation("replicas-disagree:"+ErrClass(e)+":"+BlockKind(res.Block), fmt.Sprintf("scenario %d step %d: block %d (%s) built by %s is refused by %s: %v", sc, i, res.Block.Height(), BlockKind(res.Block), who, rn, e),
						map[string]interface{}{"scenario_seed": seed, "step": i, "block": DescribeBlock(res.Block)})
				}
				break
			}
			b := res.Block
			rep.Eval(1)
			rep.Count("kind:"+BlockKind(b), 1)
			if b.Header.Flags().HasFlag(types.ValidationFinished) {
				rep.Count("epochs_finished", 1)
				if large {
					rep.Count("epochs_finished_large_network", 1)
					rep.SetInfo("large_network_size_after_epoch", w.View().AppState.ValidatorsCache.NetworkSize())
				}
			}
			if b.Header.Flags().HasFlag(types.IdentityUpdate) {
				rep.Count("identity_update_blocks", 1)
			}
			if b.Header.Flags().HasFlag(types.Snapshot) {
				rep.Count("snapshot_blocks", 1)
			}
			for _, tx := range b.Body.Transactions {
				if tx.Type == types.DeployContractTx || tx.Type == types.CallContractTx || tx.Type == types.TerminateContractTx {
					rep.Count("contract_blocks", 1)
					break
				}
			}
			// restarts at PRNG-chosen heights (also mid-ceremony)
			if s.R.Intn(23) == 0 {
				if err := restarter.Restart(); err != nil {
					rep.Violation("restart-failed", fmt.Sprintf("clean restart of a follower at height %d failed: %v", b.Height(), err), nil)
				}
				rep.Count("restarts", 1)
			}
			// detour: roll back k blocks and re-apply the canonical ones
			if s.R.Intn(19) == 0 && len(w.Blocks) > 6 {
				k := s.R.Range(1, 4)
				detour.enter()
				if _, err := detour.Chain.ResetTo(detour.Head().Height() - uint64(k)); err == nil {
					for _, ob := range w.Blocks[len(w.Blocks)-k:] {
						if err := detour.AddBlock(ob); err != nil {
							rep.Violation("rolled-back-node-refuses-canonical:"+ErrClass(err)+":"+BlockKind(ob), fmt.Sprintf("after ResetTo(-%d) the node refuses canonical block %d: %v", k, ob.Height(), err), DescribeBlock(ob))
						}
					}
					rep.Count("detours", 1)
				}
			}
			if !CheckAgreement(w, rep, "C01", b) {
				break
			}
			catchUp()
			if len(b.Body.Transactions) > 0 || b.Header.Flags() != 0 {
				rep.Distinct(b.Hash().Hex())
			}
			if sc == 0 && i < 2 {
				rep.Sample(map[string]interface{}{"block": DescribeBlock(b), "replica_zones": fmt.Sprint(zones), "revalidations_per_replica": K})
			}
			gb := w.View().AppState.State.VerifGlobalBytes()
			fmt.Fprintf(&chainLog, "%d %x %x %x %x\n", b.Height(), b.Hash().Bytes()[:8], b.Root().Bytes()[:8], b.IdentityRoot().Bytes()[:8], gb)
		}
		// (the chain itself is NOT comparable across processes: the order in which a proposer's
		// pool offers txs of different senders is the proposer's free, randomised choice)
		rep.SetInfo(fmt.Sprintf("chain-digest-%d-%d", verifutil.Shard(), sc), fmt.Sprintf("%x", common.Hash(hash32(chainLog.Bytes())).Bytes()[:12]))
		flushCounters(rep, w, s)
		w.Cleanup()
	}
	rep.Count("distinct_map_orders_witnessed", len(orders))
	rep.SetInfo("GOMAXPROCS", os.Getenv("GOMAXPROCS"))
}

// ---------------------------------------------------------------------------------- time zone grid

func TestVerifC01TimeZone(t *testing.T) {
	if !verifutil.Enabled() {
		t.Skip("verif harness")
	}
	rep := verifutil.NewReport()
	defer rep.Write()
	saved := time.Local
	defer func() { time.Local = saved }()
	sizes := []int{0, 1, 5, 17, 100, 289, 290, 300, 343, 1000, 3000, 5000, 5832, 9000, 15625, 20000}
	base := time.Date(2023, 7, 1, 0, 0, 0, 0, time.UTC).Unix()
	n := 0
	rep.Count("dst_zones_available", len(zones)-3)
	// (a) every day of two years at the usual ceremony hours: epochs that span a clock change
	for day := 0; day < 731; day++ {
		for _, hm := range [][2]int{{13, 30}, {15, 0}, {1, 30}} {
			ts := base + int64(day*86400+hm[0]*3600+hm[1]*60)
			for _, size := range []int{1, 17, 100, 300, 1000, 9000} {
				for _, up12 := range []bool{true, false} {
					cfg := &config.ValidationConfig{}
					var ref int64
					for zi, z := range zones {
						time.Local = z
						got := cfg.GetNextValidationTime(time.Unix(ts, 0), size, up12).Unix()
						rep.Eval(1)
						n++
						if zi == 0 {
							ref = got
						} else if got != ref {
							rep.Violation(fmt.Sprintf("next-validation-time-depends-on-time-zone:upgrade12=%v", up12),
								fmt.Sprintf("GetNextValidationTime(unix %d = %s, networkSize %d, upgrade12=%v) = %d under %s but %d under %s",
									ts, time.Unix(ts, 0).UTC().Format("2006-01-02 Mon 15:04"), size, up12, ref, zones[0], got, z),
								map[string]interface{}{"unix": ts, "size": size, "upgrade12": up12})
						}
					}
					if day%30 == 0 {
						rep.Distinct("dst", ts, size, up12)
					}
				}
			}
		}
	}
	// (b) two weeks, every half hour, many sizes
	for day := 0; day < 14; day++ {
		for hour := 0; hour < 24; hour += 1 {
			for _, min := range []int{0, 30} {
				ts := base + int64(day*86400+hour*3600+min*60)
				for _, size := range sizes {
					for _, up12 := range []bool{true, false} {
						for _, interval := range []time.Duration{0} {
							cfg := &config.ValidationConfig{ValidationInterval: interval}
							var ref int64
							for zi, z := range zones {
								time.Local = z
								// the chain rebuilds the time from the stored unix seconds on every node
								got := cfg.GetNextValidationTime(time.Unix(ts, 0), size, up12).Unix()
								rep.Eval(1)
								n++
								if zi == 0 {
									ref = got
								} else if got != ref {
									rep.Violation(fmt.Sprintf("next-validation-time-depends-on-time-zone:upgrade12=%v", up12),
										fmt.Sprintf("GetNextValidationTime(unix %d = %s, networkSize %d, upgrade12=%v) = %d under %s but %d under %s",
											ts, time.Unix(ts, 0).UTC().Format("Mon 15:04"), size, up12, ref, zones[0], got, z),
										map[string]interface{}{"unix": ts, "size": size, "upgrade12": up12})
								}
							}
							if size >= 290 {
								rep.Distinct(ts, size, up12)
							}
						}
					}
				}
			}
		}
	}
	rep.Count("timezone_grid_points", n)
	rep.Sample(map[string]interface{}{"grid": "14 days x 48 half-hours x 16 network sizes x upgrade12 on/off x zones UTC-11/UTC/UTC+13"})
}

// ---------------------------------------------------------------------------------- multi-shard network

// A network large enough to be split into shards (> 5000 identities): after the first epoch
// there are >= 2 shards of equal size, and activations must be assigned to the same shard on
// every node and on every re-execution.
func TestVerifC01Shards(t *testing.T) {
	if !verifutil.Enabled() {
		t.Skip("verif harness")
	}
	rep := verifutil.NewReport()
	defer rep.Write()
	seed := scenSeed(500)
	o := Options{Seed: seed, NNodes: 2, NIdent: 5300, NAccounts: 3, AllValidated: true, EpochNoKills: true, EpochSuspends: true, FirstCeremonyIn: 20 * time.Minute,
		ValidationInterval: 45 * time.Minute, StartTime: time.Date(2024, 5, 6, 9, 0, 0, 0, time.UTC)}
	w := NewWorld(o)
	defer w.Cleanup()
	for i, r := range w.Replicas {
		r.Zone = zones[i%len(zones)]
	}
	if !startScenario(w, rep, true) {
		return
	}
	s := NewScenario(w, verifutil.NewRng(seed, 1))
	s.Hostile, s.MaxTxs = 5, 2
	K := 3
	orders := map[string]bool{}
	steps := verifutil.Scale(150, 320)
	inv := 0
	for i := 0; i < steps; i++ {
		rep.Progress("C01 shards step %d", i)
		st := w.View().AppState.State
		// invitations by god + activations to fresh addresses (each activation picks the minimal shard)
		if st.ValidationPeriod() == 0 && st.ShardsNum() > 1 {
			if god, ok := w.ByAddr[st.GodAddress()]; ok && st.GodAddressInvites() > 0 && i%2 == 0 {
				a := w.AddActor("sinv", inv)
				inv++
				s.SubmitGen(&Gen{Tx: w.Tx(god, types.InviteTx, &a.Addr, Dna(1), nil), Kind: "shards:Invite"})
			}
			for _, a := range w.SortedActors() {
				if len(a.Name) > 4 && a.Name[:4] == "sinv" && st.GetIdentityState(a.Addr) == 1 /* Invite */ && s.R.Intn(2) == 0 {
					dst := w.AddActor("scand", inv*7+i)
					s.SubmitGen(&Gen{Tx: w.Tx(a, types.ActivationTx, &dst.Addr, nil, dst.Pub), Kind: "shards:Activation"})
				}
			}
		}
		w.beforeDistribute = func(b *types.Block, p *Replica) {
			hasAct := false
			for _, tx := range b.Body.Transactions {
				if tx.Type == types.ActivationTx {
					hasAct = true
				}
			}
			if !hasAct && !b.Header.Flags().HasFlag(types.ValidationFinished) {
				return
			}
			k := K
			if hasAct && w.View().AppState.State.ShardsNum() > 1 {
				k = 10
				rep.Count("activation_blocks_in_multi_shard_network", 1)
				sizes := w.View().AppState.State.ShardSizes()
				min, ties := uint32(1<<31), 0
				for _, v := range sizes {
					if v < min {
						min, ties = v, 1
					} else if v == min {
						ties++
					}
				}
				if ties > 1 {
					rep.Count("activation_blocks_with_tied_minimal_shards", 1)
				}
			}
			n := 0
			for _, r := range w.Replicas {
				if r.Alive && n < 2 {
					revalidate(rep, r, b, k, orders)
					n++
				}
			}
		}
		res := s.Step()
		w.beforeDistribute = nil
		if len(res.Errs) > 0 {
			reportReject(rep, 500, i, res)
			break
		}
		b := res.Block
		rep.Eval(1)
		if b.Header.Flags().HasFlag(types.ValidationFinished) {
			rep.Count("epochs_finished_sharded_network", 1)
			rep.SetInfo("shards_after_epoch", w.View().AppState.State.ShardsNum())
		}
		rep.Max("max_shards_num", int(w.View().AppState.State.ShardsNum()))
		if b.Header.Flags().HasFlag(types.ValidationFinished) && w.View().AppState.State.ShardsNum() > 1 {
			// suspended / zombie identities per shard after balancing
			perShard := map[common.ShardId]int{}
			w.View().AppState.State.IterateOverIdentities(func(addr common.Address, id state.Identity) {
				if id.State == state.Suspended || id.State == state.Zombie {
					perShard[id.ShiftedShardId()]++
				}
			})
			n := 0
			for _, v := range perShard {
				n += v
			}
			rep.Max("max_suspended_identities_at_shard_balancing", n)
			if len(perShard) > 1 {
				rep.Count("balancings_with_suspended_in_several_shards", 1)
			}
		}
		if !CheckAgreement(w, rep, "C01", b) {
			break
		}
		if len(b.Body.Transactions) > 0 {
			rep.Distinct(b.Hash().Hex())
		}
	}
	flushCounters(rep, w, s)
}
