package verifsim

import (
	"fmt"
	"sync"

	dbm "github.com/tendermint/tm-db"
)

// CrashDB is the harness-supplied node database of C09: a dbm.DB over a MemDB that counts
// durable writes (Set/Delete/SetSync/DeleteSync = one write each; Batch.Write/WriteSync = one
// ATOMIC write, the atomicity goleveldb gives) and "kills the process" at write index k:
// the k-th write and everything after it is dropped and the call panics with CrashSentinel.
// Assumptions: prefix durability (no reordering of acknowledged writes), atomic batches, no
// torn single writes.
type CrashDB struct {
	mu      sync.Mutex
	inner   dbm.DB
	armed   bool
	crashAt int // 1-based index of the write that does not happen; 0 = never
	Writes  int // writes counted since Arm
	Crashed bool
	Log     []string // kind of every counted write (for phase attribution)
}

type crashSentinel struct{ at int }

func (c crashSentinel) Error() string { return fmt.Sprintf("verif: simulated crash at write %d", c.at) }

func NewCrashDB(inner dbm.DB) *CrashDB { return &CrashDB{inner: inner} }

// Arm starts counting; crashAt=0 only counts.
func (c *CrashDB) Arm(crashAt int) {
	c.mu.Lock()
	c.armed, c.crashAt, c.Writes, c.Crashed, c.Log = true, crashAt, 0, false, nil
	c.mu.Unlock()
}

func (c *CrashDB) Disarm() { c.mu.Lock(); c.armed = false; c.mu.Unlock() }

func (c *CrashDB) Inner() dbm.DB { return c.inner }

// write decides the fate of one durable write. It returns false if the write is dropped.
func (c *CrashDB) write(kind string, key []byte) bool {
	c.mu.Lock()
	if c.Crashed {
		c.mu.Unlock()
		return false // the process is dead: nothing reaches the disk any more
	}
	if !c.armed {
		c.mu.Unlock()
		return true
	}
	c.Writes++
	k := kind
	if len(key) > 0 {
		n := len(key)
		if n > 12 {
			n = 12
		}
		k += fmt.Sprintf(":%q", key[:n])
	}
	c.Log = append(c.Log, k)
	if c.crashAt > 0 && c.Writes == c.crashAt {
		c.Crashed = true
		c.mu.Unlock()
		panic(crashSentinel{c.crashAt})
	}
	c.mu.Unlock()
	return true
}

func (c *CrashDB) Get(k []byte) ([]byte, error) { return c.inner.Get(k) }
func (c *CrashDB) Has(k []byte) (bool, error)   { return c.inner.Has(k) }
func (c *CrashDB) Set(k, v []byte) error {
	if !c.write("set", k) {
		return nil
	}
	return c.inner.Set(k, v)
}
func (c *CrashDB) SetSync(k, v []byte) error {
	if !c.write("set", k) {
		return nil
	}
	return c.inner.SetSync(k, v)
}
func (c *CrashDB) Delete(k []byte) error {
	if !c.write("delete", k) {
		return nil
	}
	return c.inner.Delete(k)
}
func (c *CrashDB) DeleteSync(k []byte) error {
	if !c.write("delete", k) {
		return nil
	}
	return c.inner.DeleteSync(k)
}
func (c *CrashDB) Iterator(s, e []byte) (dbm.Iterator, error) { return c.inner.Iterator(s, e) }
func (c *CrashDB) ReverseIterator(s, e []byte) (dbm.Iterator, error) {
	return c.inner.ReverseIterator(s, e)
}
func (c *CrashDB) Close() error             { return nil }
func (c *CrashDB) Print() error             { return nil }
func (c *CrashDB) Stats() map[string]string { return c.inner.Stats() }
func (c *CrashDB) NewBatch() dbm.Batch      { return &crashBatch{c: c, b: c.inner.NewBatch()} }

type crashBatch struct {
	c     *CrashDB
	b     dbm.Batch
	n     int
	first []byte
}

func (b *crashBatch) Set(k, v []byte) error {
	if b.n == 0 {
		b.first = append([]byte{}, k...)
	}
	b.n++
	return b.b.Set(k, v)
}
func (b *crashBatch) Delete(k []byte) error {
	if b.n == 0 {
		b.first = append([]byte{}, k...)
	}
	b.n++
	return b.b.Delete(k)
}
func (b *crashBatch) Write() error {
	if b.n == 0 {
		return b.b.Write()
	}
	if !b.c.write(fmt.Sprintf("batch(%d)", b.n), b.first) {
		return nil
	}
	return b.b.Write()
}
func (b *crashBatch) WriteSync() error {
	if b.n == 0 {
		return b.b.WriteSync()
	}
	if !b.c.write(fmt.Sprintf("batch(%d)", b.n), b.first) {
		return nil
	}
	return b.b.WriteSync()
}
func (b *crashBatch) Close() error { return b.b.Close() }

// RunToCrash executes f and reports whether the simulated crash happened (by the sentinel
// panic, or swallowed by a recover inside the code under test).
func (c *CrashDB) RunToCrash(f func()) (crashed bool, other interface{}) {
	defer func() {
		if p := recover(); p != nil {
			if _, ok := p.(crashSentinel); ok {
				crashed = true
				return
			}
			if c.Crashed {
				// a panic provoked by reads after the crash point while unwinding: the process is dead anyway
				crashed = true
				return
			}
			other = p
		}
	}()
	f()
	return c.Crashed, nil
}
