package verifsim

import (
	"fmt"
	"runtime"
	"strings"
	"sync"
	"time"

	dbm "github.com/tendermint/tm-db"
)

// CrashDB is the harness-supplied node database of C09: a dbm.DB over a MemDB that counts
// durable writes (Set/Delete/SetSync/DeleteSync = one write each; Batch.Write/WriteSync = one
// ATOMIC write, the atomicity goleveldb gives) and "kills the process" at write index k:
// the k-th write and everything after it is dropped and the call panics with CrashSentinel.
// Assumptions: prefix durability (no reordering of acknowledged writes), atomic batches, no
// torn single writes.
type CrashDB struct {
	mu      sync.Mutex
	inner   dbm.DB
	armed   bool
	crashAt int // 1-based index of the write that does not happen; 0 = never
	Writes  int // writes counted since Arm
	Crashed bool
	Log     []string // kind of every counted write (for phase attribution)

	// Classify (optional) is called for every counted write, on the writing goroutine; what it
	// returns (e.g. a phase derived from the call stack) is kept in Phases, parallel to Log.
	Classify func() string
	Phases   []string
	// Background: the code under test also writes from goroutines it starts itself (e.g. the
	// clean-up of the replaced databases after AtomicSwitchToPreliminary). A crash that falls on
	// a write of such a goroutine ends that goroutine (runtime.Goexit) instead of panicking - an
	// un-recovered panic there would end the harness process -, and iterators opened after the
	// crash are empty, so that delete loops of code that is still running (it is "dead": none of
	// its writes reaches the database any more) come to an end.
	Background bool
}

type crashSentinel struct{ at int }

func (c crashSentinel) Error() string { return fmt.Sprintf("verif: simulated crash at write %d", c.at) }

func NewCrashDB(inner dbm.DB) *CrashDB { return &CrashDB{inner: inner} }

// Arm starts counting; crashAt=0 only counts.
func (c *CrashDB) Arm(crashAt int) {
	c.mu.Lock()
	c.armed, c.crashAt, c.Writes, c.Crashed, c.Log, c.Phases = true, crashAt, 0, false, nil, nil
	c.mu.Unlock()
}

// Count returns the number of writes counted since Arm and whether the crash happened.
func (c *CrashDB) Count() (int, bool) {
	c.mu.Lock()
	defer c.mu.Unlock()
	return c.Writes, c.Crashed
}

// Snapshot returns copies of the write log and of the phase log.
func (c *CrashDB) Snapshot() (log, phases []string) {
	c.mu.Lock()
	defer c.mu.Unlock()
	return append([]string{}, c.Log...), append([]string{}, c.Phases...)
}

// onTestGoroutine tells whether the caller runs below testing.tRunner (the harness goroutine).
func onTestGoroutine() bool {
	buf := make([]byte, 64<<10)
	buf = buf[:runtime.Stack(buf, false)]
	return strings.Contains(string(buf), "testing.tRunner")
}

func (c *CrashDB) Disarm() { c.mu.Lock(); c.armed = false; c.mu.Unlock() }

func (c *CrashDB) Inner() dbm.DB { return c.inner }

// write decides the fate of one durable write. It returns false if the write is dropped.
func (c *CrashDB) write(kind string, key []byte) bool {
	c.mu.Lock()
	if c.Crashed {
		c.mu.Unlock()
		return false // the process is dead: nothing reaches the disk any more
	}
	if !c.armed {
		c.mu.Unlock()
		return true
	}
	c.Writes++
	k := kind
	if len(key) > 0 {
		n := len(key)
		if n > 12 {
			n = 12
		}
		k += fmt.Sprintf(":%q", key[:n])
	}
	c.Log = append(c.Log, k)
	if c.Classify != nil {
		c.Phases = append(c.Phases, c.Classify())
	}
	if c.crashAt > 0 && c.Writes == c.crashAt {
		c.Crashed = true
		c.mu.Unlock()
		if c.Background && !onTestGoroutine() {
			runtime.Goexit()
		}
		panic(crashSentinel{c.crashAt})
	}
	c.mu.Unlock()
	return true
}

func (c *CrashDB) Get(k []byte) ([]byte, error) { return c.inner.Get(k) }
func (c *CrashDB) Has(k []byte) (bool, error)   { return c.inner.Has(k) }
func (c *CrashDB) Set(k, v []byte) error {
	if !c.write("set", k) {
		return nil
	}
	return c.inner.Set(k, v)
}
func (c *CrashDB) SetSync(k, v []byte) error {
	if !c.write("set", k) {
		return nil
	}
	return c.inner.SetSync(k, v)
}
func (c *CrashDB) Delete(k []byte) error {
	if !c.write("delete", k) {
		return nil
	}
	return c.inner.Delete(k)
}
func (c *CrashDB) DeleteSync(k []byte) error {
	if !c.write("delete", k) {
		return nil
	}
	return c.inner.DeleteSync(k)
}
func (c *CrashDB) dead() bool {
	if !c.Background {
		return false
	}
	c.mu.Lock()
	defer c.mu.Unlock()
	return c.Crashed
}

var emptyDB = dbm.NewMemDB()

func (c *CrashDB) Iterator(s, e []byte) (dbm.Iterator, error) {
	if c.dead() {
		return emptyDB.Iterator(s, e)
	}
	return c.inner.Iterator(s, e)
}
func (c *CrashDB) ReverseIterator(s, e []byte) (dbm.Iterator, error) {
	if c.dead() {
		return emptyDB.ReverseIterator(s, e)
	}
	return c.inner.ReverseIterator(s, e)
}
func (c *CrashDB) Close() error             { return nil }
func (c *CrashDB) Print() error             { return nil }
func (c *CrashDB) Stats() map[string]string { return c.inner.Stats() }
func (c *CrashDB) NewBatch() dbm.Batch      { return &crashBatch{c: c, b: c.inner.NewBatch()} }

type crashBatch struct {
	c     *CrashDB
	b     dbm.Batch
	n     int
	first []byte
}

func (b *crashBatch) Set(k, v []byte) error {
	if b.n == 0 {
		b.first = append([]byte{}, k...)
	}
	b.n++
	return b.b.Set(k, v)
}
func (b *crashBatch) Delete(k []byte) error {
	if b.n == 0 {
		b.first = append([]byte{}, k...)
	}
	b.n++
	return b.b.Delete(k)
}
func (b *crashBatch) Write() error {
	if b.n == 0 {
		return b.b.Write()
	}
	if !b.c.write(fmt.Sprintf("batch(%d)", b.n), b.first) {
		return nil
	}
	return b.b.Write()
}
func (b *crashBatch) WriteSync() error {
	if b.n == 0 {
		return b.b.WriteSync()
	}
	if !b.c.write(fmt.Sprintf("batch(%d)", b.n), b.first) {
		return nil
	}
	return b.b.WriteSync()
}
func (b *crashBatch) Close() error { return b.b.Close() }

func prefixEmpty(db dbm.DB, prefix []byte) bool {
	if len(prefix) == 0 {
		return true
	}
	end := append([]byte{}, prefix...)
	for i := len(end) - 1; i >= 0; i-- {
		end[i]++
		if end[i] != 0 {
			break
		}
	}
	it, err := db.Iterator(prefix, end)
	if err != nil {
		return true
	}
	defer it.Close()
	return !it.Valid()
}

// WaitEmptied waits until no key with one of the prefixes is left in the underlying database or
// the database "died": the way to wait for the goroutine AtomicSwitchToPreliminary starts to
// empty the two replaced databases (state and identity state under their old prefixes). Nothing
// else writes at that time, so the number and order of the writes is the same in every run.
// The time limit is a harness watchdog only (false = gave up: no verdict).
func (c *CrashDB) WaitEmptied(prefixes ...[]byte) bool {
	deadline := time.Now().Add(60 * time.Second)
	for {
		if _, crashed := c.Count(); crashed {
			return true
		}
		done := true
		for _, p := range prefixes {
			if !prefixEmpty(c.inner, p) {
				done = false
			}
		}
		if done {
			return true
		}
		if time.Now().After(deadline) {
			return false
		}
		time.Sleep(100 * time.Microsecond)
	}
}

// RunToCrash executes f and reports whether the simulated crash happened (by the sentinel
// panic, or swallowed by a recover inside the code under test).
func (c *CrashDB) RunToCrash(f func()) (crashed bool, other interface{}) {
	defer func() {
		if p := recover(); p != nil {
			if _, ok := p.(crashSentinel); ok {
				crashed = true
				return
			}
			if c.Crashed {
				// a panic provoked by reads after the crash point while unwinding: the process is dead anyway
				crashed = true
				return
			}
			other = p
		}
	}()
	f()
	return c.Crashed, nil
}

// WriteClass names the class (kind of write : kind of key) of an entry of CrashDB.Log.
func WriteClass(logEntry string) string {
	kind := logEntry
	key := ""
	if i := strings.Index(logEntry, ":"); i >= 0 {
		kind, key = logEntry[:i], logEntry[i+1:]
	}
	if strings.HasPrefix(kind, "batch") {
		kind = "batch"
	}
	cls := "other"
	switch {
	case strings.HasPrefix(key, `"\x01`):
		cls = "stateTree"
		if len(key) > 6 && key[5] != '\\' {
			cls = "statePrefixKey"
		}
	case strings.HasPrefix(key, `"\x02`):
		cls = "identityTree"
	case strings.HasPrefix(key, `"\x03`):
		cls = "preliminaryIdentityTree"
	case strings.HasPrefix(key, `"LastBlock`):
		cls = "head"
	case strings.HasPrefix(key, `"id-diff`):
		cls = "identityDiff"
	case strings.HasPrefix(key, `"ti`):
		cls = "txIndex"
	case strings.HasPrefix(key, `"ri`):
		cls = "receiptIndex"
	case strings.HasPrefix(key, `"oti`):
		cls = "ownTxIndex"
	case strings.HasPrefix(key, `"bc`):
		cls = "burntCoins"
	case strings.HasPrefix(key, `"preliminary-`):
		cls = "preliminaryHead"
	case strings.HasPrefix(key, `"snpsht`):
		cls = "snapshotDb"
	case strings.HasPrefix(key, `"h`):
		cls = "header-or-canonical"
	case strings.HasPrefix(key, `"c`):
		cls = "certificate"
	case strings.HasPrefix(key, `"weak`):
		cls = "weakCerts"
	case strings.HasPrefix(key, `"last-snap`):
		cls = "snapshotManifest"
	case strings.HasPrefix(key, `"e`):
		cls = "events"
	}
	return kind + ":" + cls
}
