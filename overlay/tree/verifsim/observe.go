package verifsim

import (
	"bytes"
	"crypto/sha256"
	"encoding/hex"
	"fmt"
	"math/big"
	"sort"
	"strings"

	"github.com/idena-network/idena-go/blockchain/types"
	"github.com/idena-network/idena-go/common"
	"github.com/idena-network/idena-go/core/appstate"
	"github.com/idena-network/idena-go/core/state"
	"github.com/idena-network/idena-go/core/validators"
	dbm "github.com/tendermint/tm-db"
)

// ------------------------------------------------------------------ digests

// DigestDB hashes every key/value of a node database (optionally skipping key prefixes).
func DigestDB(db dbm.DB, skip func(key []byte) bool) (digest string, n int) {
	it, err := db.Iterator(nil, nil)
	if err != nil {
		panic(err)
	}
	defer it.Close()
	h := sha256.New()
	var l [8]byte
	for ; it.Valid(); it.Next() {
		k, v := it.Key(), it.Value()
		if skip != nil && skip(k) {
			continue
		}
		putLen(&l, len(k))
		h.Write(l[:])
		h.Write(k)
		putLen(&l, len(v))
		h.Write(l[:])
		h.Write(v)
		n++
	}
	return hex.EncodeToString(h.Sum(nil)[:12]), n
}

func putLen(l *[8]byte, n int) {
	for i := 0; i < 8; i++ {
		l[i] = byte(n >> (8 * uint(i)))
	}
}

// DumpDB copies all key/values (for diffing after a mismatch and for crash recovery copies).
func DumpDB(db dbm.DB) map[string][]byte {
	it, err := db.Iterator(nil, nil)
	if err != nil {
		panic(err)
	}
	defer it.Close()
	m := map[string][]byte{}
	for ; it.Valid(); it.Next() {
		m[string(it.Key())] = append([]byte{}, it.Value()...)
	}
	return m
}

func CloneDB(db dbm.DB) dbm.DB {
	n := dbm.NewMemDB()
	for k, v := range DumpDB(db) {
		n.Set([]byte(k), v)
	}
	return n
}

// DiffDumps describes the first few differing keys of two dumps.
func DiffDumps(a, b map[string][]byte) string {
	var keys []string
	for k := range a {
		keys = append(keys, k)
	}
	for k := range b {
		if _, ok := a[k]; !ok {
			keys = append(keys, k)
		}
	}
	sort.Strings(keys)
	var out []string
	for _, k := range keys {
		va, oka := a[k]
		vb, okb := b[k]
		if oka && okb && bytes.Equal(va, vb) {
			continue
		}
		out = append(out, fmt.Sprintf("key %x: before=%v(%d bytes) after=%v(%d bytes)", trunc([]byte(k), 24), oka, len(va), okb, len(vb)))
		if len(out) >= 6 {
			out = append(out, "…")
			break
		}
	}
	return strings.Join(out, "; ")
}

func trunc(b []byte, n int) []byte {
	if len(b) > n {
		return b[:n]
	}
	return b
}

// StateDigest iterates every key/value of both committed IAVL trees (state, identity state).
type StateDigest struct {
	State, Identity      string
	StateKeys, IdentKeys int
	Root, IdentityRoot   common.Hash
}

func DigestState(as *appstate.AppState) StateDigest {
	var d StateDigest
	h := sha256.New()
	var l [8]byte
	as.State.VerifIterateAll(func(k, v []byte) bool {
		putLen(&l, len(k))
		h.Write(l[:])
		h.Write(k)
		putLen(&l, len(v))
		h.Write(l[:])
		h.Write(v)
		d.StateKeys++
		return false
	})
	d.State = hex.EncodeToString(h.Sum(nil)[:12])
	h = sha256.New()
	as.IdentityState.IterateIdentities(func(k, v []byte) bool {
		putLen(&l, len(k))
		h.Write(l[:])
		h.Write(k)
		putLen(&l, len(v))
		h.Write(l[:])
		h.Write(v)
		d.IdentKeys++
		return false
	})
	d.Identity = hex.EncodeToString(h.Sum(nil)[:12])
	d.Root = as.State.Root()
	d.IdentityRoot = as.IdentityState.Root()
	return d
}

func (d StateDigest) String() string {
	return fmt.Sprintf("state=%s(%d keys) identity=%s(%d keys) root=%x idRoot=%x", d.State, d.StateKeys, d.Identity, d.IdentKeys, d.Root[:6], d.IdentityRoot[:6])
}

// StateKV returns the committed state tree contents (for first-difference localisation).
func StateKV(as *appstate.AppState) map[string][]byte {
	m := map[string][]byte{}
	as.State.VerifIterateAll(func(k, v []byte) bool {
		m[string(k)] = append([]byte{}, v...)
		return false
	})
	return m
}

// KeyClass names the kind of a state tree key by its prefix byte.
func KeyClass(k []byte) string {
	if len(k) == 0 {
		return "empty"
	}
	switch k[0] {
	case 1:
		return "account"
	case 2:
		return "identity"
	case 3:
		return "global"
	case 4:
		return "statusSwitch"
	case 5:
		return "contractStore"
	case 6:
		return "delegationSwitch"
	case 7:
		return "delayedOfflinePenalty"
	case 8:
		return "burntCoins"
	case 9:
		return "contractCode"
	case 10:
		return "discriminationSwitch"
	}
	return fmt.Sprintf("prefix%d", k[0])
}

// FirstStateDiff names the class of the first differing key of two state contents.
func FirstStateDiff(a, b map[string][]byte) string {
	var keys []string
	for k := range a {
		keys = append(keys, k)
	}
	for k := range b {
		if _, ok := a[k]; !ok {
			keys = append(keys, k)
		}
	}
	sort.Strings(keys)
	for _, k := range keys {
		if !bytes.Equal(a[k], b[k]) {
			return KeyClass([]byte(k))
		}
	}
	return "none"
}

// ------------------------------------------------------------------ ledger

type LedgerEntry struct {
	Balance, Stake, Locked, Replenished, ContractStake *big.Int
	HasIdentity, HasAccount                            bool
	State                                              state.IdentityState
}

type Ledger struct {
	ByAddr map[common.Address]*LedgerEntry
	Total  *big.Int
}

func (l *Ledger) entry(a common.Address) *LedgerEntry {
	e := l.ByAddr[a]
	if e == nil {
		e = &LedgerEntry{Balance: new(big.Int), Stake: new(big.Int), Locked: new(big.Int), Replenished: new(big.Int), ContractStake: new(big.Int)}
		l.ByAddr[a] = e
	}
	return e
}

// LedgerOf iterates all accounts and identities of the COMMITTED state of as.
func LedgerOf(as *appstate.AppState) *Ledger {
	l := &Ledger{ByAddr: map[common.Address]*LedgerEntry{}, Total: new(big.Int)}
	as.State.IterateAccounts(func(key []byte, value []byte) bool {
		if key == nil {
			return true
		}
		addr := common.Address{}
		addr.SetBytes(key[1:])
		var acc state.Account
		if err := acc.FromBytes(value); err != nil {
			panic(err)
		}
		e := l.entry(addr)
		e.HasAccount = true
		if acc.Balance != nil {
			e.Balance.Set(acc.Balance)
		}
		if acc.Contract != nil && acc.Contract.Stake != nil {
			e.ContractStake.Set(acc.Contract.Stake)
		}
		return false
	})
	as.State.IterateIdentities(func(key []byte, value []byte) bool {
		if key == nil {
			return true
		}
		addr := common.Address{}
		addr.SetBytes(key[1:])
		var id state.Identity
		if err := id.FromBytes(value); err != nil {
			panic(err)
		}
		e := l.entry(addr)
		e.HasIdentity = true
		e.State = id.State
		if id.Stake != nil {
			e.Stake.Set(id.Stake)
		}
		if v := id.LockedStake(); v != nil {
			e.Locked.Set(v)
		}
		if v := id.ReplenishedStake(); v != nil {
			e.Replenished.Set(v)
		}
		return false
	})
	for _, e := range l.ByAddr {
		l.Total.Add(l.Total, e.Balance)
		l.Total.Add(l.Total, e.Stake)
		l.Total.Add(l.Total, e.ContractStake)
	}
	return l
}

// ------------------------------------------------------------------ validator view

// ValidatorsDump renders every public getter of a validators cache for a set of addresses
// and committee probes, as one canonical string per line.
func ValidatorsDump(vc *validators.ValidatorsCache, addrs []common.Address, probes []CommitteeProbe) []string {
	var out []string
	out = append(out, fmt.Sprintf("network=%d online=%d validators=%d forkCommittee=%d", vc.NetworkSize(), vc.OnlineSize(), vc.ValidatorsSize(), vc.ForkCommitteeSize()))
	for _, a := range addrs {
		out = append(out, fmt.Sprintf("%x validated=%v online=%v pool=%v discr=%v poolSize=%d delegator=%x", a[:4], vc.IsValidated(a), vc.IsOnlineIdentity(a),
			vc.IsPool(a), vc.IsDiscriminated(a), vc.PoolSize(a), vc.Delegator(a).Bytes()[:4]))
		if vc.IsPool(a) {
			n := uint32(0)
			var subs []string
			for i := 0; i < vc.PoolSize(a)+1; i++ {
				var s common.Address
				s, n = vc.FindSubIdentity(a, n)
				subs = append(subs, fmt.Sprintf("%x/%d", s[:4], n))
			}
			out = append(out, fmt.Sprintf("  subIdentities %s", strings.Join(subs, ",")))
		}
	}
	all := vc.GetAllOnlineValidators()
	var on []string
	for _, x := range all.ToSlice() {
		a := x.(common.Address)
		on = append(on, hex.EncodeToString(a[:4]))
	}
	sort.Strings(on)
	out = append(out, "onlineSet "+strings.Join(on, ","))
	for _, p := range probes {
		sv := vc.GetOnlineValidators(p.Seed, p.Round, p.Step, p.Limit)
		if sv == nil {
			out = append(out, fmt.Sprintf("committee(%d,%d,%d) nil", p.Round, p.Step, p.Limit))
			continue
		}
		out = append(out, fmt.Sprintf("committee(%d,%d,%d) original=%s validators=%s approved=%s subtrahend=%d", p.Round, p.Step, p.Limit,
			setStr(sv.Original.ToSlice()), setStr(sv.Validators.ToSlice()), setStr(sv.ApprovedValidators.ToSlice()), sv.VotesCountSubtrahend(0.65)))
	}
	return out
}

func setStr(l []interface{}) string {
	var s []string
	for _, x := range l {
		a := x.(common.Address)
		s = append(s, hex.EncodeToString(a[:3]))
	}
	sort.Strings(s)
	return strings.Join(s, ",")
}

type CommitteeProbe struct {
	Seed  types.Seed
	Round uint64
	Step  uint8
	Limit int
}

func sortStrings(l []string) []string { sort.Strings(l); return l }

func hash32(b []byte) [32]byte { return sha256.Sum256(b) }

type stateIdentityAlias = state.Identity
