package verifsim

import (
	"fmt"
	"github.com/idena-network/idena-go/blockchain/attachments"
	"strings"
	"testing"

	"github.com/idena-network/idena-go/blockchain/types"
	"github.com/idena-network/idena-go/blockchain/validation"
	"github.com/idena-network/idena-go/common"
	"github.com/idena-network/idena-go/core/state"
	"github.com/idena-network/idena-go/ipfs"
	"github.com/idena-network/idena-go/verifutil"
)

// ---------------------------------------------------------------------------------- C05

func relationOf(w *World, pre *state.StateDB, tx *types.Transaction) string {
	s := senderOf(tx)
	if tx.To == nil {
		return "none"
	}
	to := *tx.To
	switch {
	case to == s:
		return "self"
	case to == pre.GodAddress():
		return "god"
	case to == (common.Address{}):
		return "zero"
	case pre.GetCodeHash(to) != nil:
		return "contract"
	}
	id := pre.GetIdentity(to)
	if id.Inviter != nil && id.Inviter.Address == s {
		return "own-invitee"
	}
	if d := id.Delegatee(); d != nil && *d == s {
		return "own-delegator"
	}
	if ds := pre.DelegationSwitch(to); ds != nil && ds.Delegatee == s {
		return "pending-delegator-of-signer"
	}
	if id.Inviter != nil {
		return "foreign-invitee"
	}
	if id.Delegatee() != nil {
		return "foreign-delegator"
	}
	switch id.State {
	case state.Killed:
		return "killed"
	case state.Undefined:
		return "undefined"
	}
	return "identity"
}

func TestVerifC05(t *testing.T) {
	if !verifutil.Enabled() {
		t.Skip("verif harness")
	}
	rep := verifutil.NewReport()
	defer rep.Write()
	nScen := verifutil.Scale(2, 14)
	steps := verifutil.Scale(300, 450)
	for sc := 0; sc < nScen; sc++ {
		seed := scenSeed(sc)
		o5 := optsFor(sc, seed)
		// a few identities start with invitations to give away (the inviter story needs >= 3 invitees)
		o5.GenesisTweak = func(w *World, st *state.StateDB) {
			n := 0
			for _, a := range w.SortedActors() {
				if a != w.God && !isNode(w, a) && n < 6 {
					st.SetInvites(a.Addr, 5)
					n++
				}
			}
		}
		w := NewWorld(o5)
		twin := w.AddTwin()
		if !startScenario(w, rep, false) {
			w.Cleanup()
			continue
		}
		s := NewScenario(w, verifutil.NewRng(seed, 5))
		s.Hostile, s.MaxTxs = 20, 4
		inviter := &inviterStory{}
		for i := 0; i < steps; i++ {
			rep.Progress("C05 scenario %d seed %d step %d", sc, seed, i)
			for k := 0; k < 3; k++ {
				g := w.RandomTx(s.R, 60)
				if g == nil || g.Tx == nil {
					continue
				}
				twinSpend(w, twin, rep, g)
				if k == 0 {
					s.SubmitGen(g)
				}
			}
			if i%6 == 3 {
				for _, g := range w.ForgedSignatureTxs(s.R) {
					rep.Count("attempted:"+g.Kind, 1)
					twinSpend(w, twin, rep, g)
				}
			}
			inviter.advance(w, s, twin, rep)
			// a contract call failing mid-execution followed by a successful contract tx of the same
			// signer: third parties must not end lower than without the two txs
			if i%15 == 7 {
				for _, seq := range w.GasSweepSeqs(s.R, twin, 6) {
					tr, err := w.TwinSeq(twin, seq)
					if err != nil || tr == nil || !tr.Included {
						continue
					}
					rep.Eval(1)
					rep.Count("twin_sequences(fail-then-success)", 1)
					if len(tr.Receipts) == 2 && !tr.Receipts[0].Success && tr.Receipts[1].Success {
						rep.Count("twin_sequences_failed_midway_then_succeeded", 1)
					}
					signer := senderOf(seq[0])
					pre := twin.AppState.State
					l0, l1 := LedgerOf(tr.Post0), LedgerOf(tr.Post1)
					for a, e0 := range l0.ByAddr {
						e1 := l1.ByAddr[a]
						if a == signer || e1 == nil || pre.GetCodeHash(a) != nil || tr.Post1.State.GetCodeHash(a) != nil {
							continue
						}
						if e1.Balance.Cmp(e0.Balance) < 0 || e1.Stake.Cmp(e0.Stake) < 0 {
							rep.Violation("foreign-funds-lowered:contract-failure-then-success", fmt.Sprintf("two contract txs signed by %x (the first fails mid-execution) lower %x: balance %v->%v stake %v->%v", signer[:4], a[:4], e0.Balance, e1.Balance, e0.Stake, e1.Stake),
								map[string]interface{}{"block": DescribeBlock(tr.B1), "diff": LedgerDiff(l0, l1)})
						}
					}
				}
			}
			// the same with an ordinary transfer to the call's destination in between: the third party
			// must end exactly as in the block that carries only that transfer
			if i%15 == 11 {
				for _, sq := range w.GasSweepTriples(s.R, twin, 6) {
					full, e1 := w.TwinSeq(twin, sq.Full)
					base, e2 := w.TwinSeq(twin, sq.Base)
					if e1 != nil || e2 != nil || full == nil || base == nil || !full.Included || !base.Included {
						continue
					}
					rep.Eval(1)
					rep.Count("twin_triples(fail,transfer,success)", 1)
					if len(full.Receipts) == 2 && !full.Receipts[0].Success && full.Receipts[1].Success {
						rep.Count("twin_triples_failed_midway_then_succeeded", 1)
					}
					if sq.Victim == sq.Signer {
						continue // the destination is the signer itself: it pays the fees of its own txs
					}
					vb, vf := base.Post1.State.GetBalance(sq.Victim), full.Post1.State.GetBalance(sq.Victim)
					if vf.Cmp(vb) < 0 {
						rep.Violation("foreign-funds-lowered:contract-failure,transfer,success", fmt.Sprintf("signer %x: [contract call to %x failing mid-execution, transfer to %x, successful contract tx] leaves %x with %v, the transfer alone with %v",
							sq.Signer[:4], sq.Victim[:4], sq.Victim[:4], sq.Victim[:4], vf, vb), map[string]interface{}{"block": DescribeBlock(full.B1)})
					}
				}
			}
			// kills along every relationship the ledger holds, by the entitled party and by strangers
			for _, g := range w.RelationTxs(s.R) {
				twinSpend(w, twin, rep, g)
			}
			res := s.Step()
			if len(res.Errs) > 0 {
				rep.Note("scenario %d stopped at step %d: block refused (%v)", sc, i, res.Errs)
				break
			}
			for _, tx := range res.Block.Body.Transactions {
				if tx.Type == types.KillTx {
					if c05SelfTerminated[w] == nil {
						c05SelfTerminated[w] = map[common.Address]bool{}
					}
					if a, ok := SignerOf(tx); ok {
						c05SelfTerminated[w][a] = true
					}
				}
				// an address that is invited / activated again starts a new life
				if (tx.Type == types.InviteTx || tx.Type == types.ActivationTx) && tx.To != nil && c05SelfTerminated[w] != nil {
					delete(c05SelfTerminated[w], *tx.To)
				}
			}
		}
		flushCounters(rep, w, s)
		delete(c05SelfTerminated, w)
		w.Cleanup()
	}
}

// c05SelfTerminated: addresses whose KillTx (self-termination) was included in a canonical block
// of the world (the harness' own record of the history).
var c05SelfTerminated = map[*World]map[common.Address]bool{}

func twinSpend(w *World, twin *Replica, rep *verifutil.Report, g *Gen) {
	pre := twin.AppState.State
	tx := g.Tx
	// who signed is decided with the crypto primitives alone, not by the code under test
	signer, signed := SignerOf(tx)
	if !signed {
		signer = common.Address{0xff, 0xfe, 0xfd} // nobody: every lowered account is a third party
		rep.Count("twins_with_unrecoverable_signature", 1)
	}
	rel := relationOf(w, pre, tx)
	// exceptions decided from the PRE-state, independently of the validators
	exempt := map[common.Address]string{}
	if tx.To != nil {
		tid := pre.GetIdentity(*tx.To)
		// the relationship is the one the ledger records, with one addition from the history: an
		// identity that terminated itself is no longer the inviter of the invitees that had ACTIVATED
		// their invitation (KillTx severs the links with everybody on the inviter's invitee list;
		// invitations that were never activated are not on that list and stay killable)
		if tx.Type == types.KillInviteeTx && tid.Inviter != nil && tid.Inviter.Address == signer {
			if c05SelfTerminated[w][signer] && tid.State == state.Candidate {
				rep.Count("kill_invitee_by_terminated_inviter_of_an_activated_invitee", 1)
			} else {
				exempt[*tx.To] = "inviter terminates own invitee"
			}
		}
		if d := tid.Delegatee(); tx.Type == types.KillDelegatorTx && d != nil && *d == signer {
			exempt[*tx.To] = "pool terminates own delegator"
		}
	}
	senderStatus := pre.GetIdentityState(signer)
	rep.Count("attempted_relation:"+rel, 1) // also the attempts validation refuses (as it must for most hostile relations)
	tr, err := w.Twin(twin, tx, true)
	if err != nil || tr == nil {
		return
	}
	rep.Count("twins_attempted", 1)
	if !tr.Included {
		return
	}
	if tr.B0.Header.Flags().HasFlag(types.ValidationFinished) {
		rep.Count("twins_skipped_epoch_block", 1)
		return
	}
	rep.Eval(1)
	rep.Count("twin_type:"+TxName(tx.Type), 1)
	rep.Count("relation:"+rel, 1)
	rep.Distinct(TxName(tx.Type), rel, senderStatus)
	isContractTx := tx.Type == types.CallContractTx || tx.Type == types.TerminateContractTx || tx.Type == types.DeployContractTx
	l0, l1 := LedgerOf(tr.Post0), LedgerOf(tr.Post1)
	for a, e0 := range l0.ByAddr {
		if a == signer {
			continue
		}
		e1 := l1.ByAddr[a]
		if e1 == nil {
			e1 = &LedgerEntry{Balance: common.Big0, Stake: common.Big0, ContractStake: common.Big0}
		}
		lower := e1.Balance.Cmp(e0.Balance) < 0 || e1.Stake.Cmp(e0.Stake) < 0 || e1.ContractStake.Cmp(e0.ContractStake) < 0
		if !lower {
			continue
		}
		if why, ok := exempt[a]; ok {
			rep.Count("exception:"+why, 1)
			continue
		}
		if isContractTx && (pre.GetCodeHash(a) != nil || tr.Post1.State.GetCodeHash(a) != nil) {
			rep.Count("exception:contract pays from own funds", 1)
			continue
		}
		rep.Violation("foreign-funds-lowered:"+TxName(tx.Type)+":"+rel, fmt.Sprintf("%s tx (%s, relation %s) signed by %x lowers %x: balance %v->%v stake %v->%v contractStake %v->%v (without tx -> with tx)",
			TxName(tx.Type), g.Kind, rel, signer[:4], a[:4], e0.Balance, e1.Balance, e0.Stake, e1.Stake, e0.ContractStake, e1.ContractStake),
			map[string]interface{}{"tx": DescribeBlock(tr.B1), "diff": LedgerDiff(l0, l1)})
	}
	if rep.Get("samples_taken") < 4 && rel != "none" {
		rep.Count("samples_taken", 1)
		rep.Sample(map[string]interface{}{"tx": DescribeBlock(tr.B1)["txs"], "relation": rel, "sender_status": senderStatus, "diff_with_vs_without": LedgerDiff(l0, l1)})
	}
}

// ---------------------------------------------------------------------------------- C06

func isReplayRefusal(err error) bool {
	if err == nil {
		return false
	}
	m := strings.ToLower(err.Error())
	return strings.Contains(m, "invalid nonce") || strings.Contains(m, "invalid epoch") || strings.Contains(m, "invalid tx nonce") || strings.Contains(m, "invalid tx epoch")
}

// replayIntoBlock appends tx to an otherwise valid tx-free proposal of the twin (recomputing
// the transaction commitment, body cid and bloom) and runs the real block validation.
func replayIntoBlock(twin *Replica, tx *types.Transaction) (err error, usable bool) {
	twin.enter()
	if !twin.CanPropose() {
		return nil, false
	}
	for _, old := range twin.TxPool.VerifAll() {
		twin.TxPool.Remove(old)
	}
	b := twin.Chain.ProposeBlock(nil).Block
	if _, _, e0 := twin.Chain.VerifValidateOnCheck(b); e0 != nil {
		return nil, false // the carrier block itself must be valid
	}
	h := *b.Header.ProposedHeader
	body := &types.Body{Transactions: []*types.Transaction{tx}}
	h.TxHash = types.DeriveSha(types.Transactions(body.Transactions))
	c, _ := twin.Ipfs.Cid(body.ToBytes())
	if c != ipfs.EmptyCid {
		h.IpfsHash = c.Bytes()
	}
	nb := &types.Block{Header: &types.Header{ProposedHeader: &h}, Body: body}
	_, _, err = twin.Chain.VerifValidateOnCheck(nb)
	return err, true
}

func TestVerifC06(t *testing.T) {
	if !verifutil.Enabled() {
		t.Skip("verif harness")
	}
	rep := verifutil.NewReport()
	defer rep.Write()
	nScen := verifutil.Scale(2, 12)
	steps := verifutil.Scale(320, 500)
	for sc := 0; sc < nScen; sc++ {
		seed := scenSeed(sc)
		o := optsFor(sc, seed)
		if sc%2 == 0 {
			o.ValidationInterval = 45 * 60 * 1e9 // several epochs per scenario
		}
		w := NewWorld(o)
		twin := w.AddTwin()
		if !startScenario(w, rep, false) {
			w.Cleanup()
			continue
		}
		s := NewScenario(w, verifutil.NewRng(seed, 6))
		s.Hostile, s.MaxTxs = 25, 6
		rm := NewReplayMonitor()
		for _, b := range w.Blocks {
			rm.OnBlock(rep, b, 0)
		}
		type inc struct {
			tx     *types.Transaction
			height uint64
			epoch  uint16
		}
		var included []inc
		reorged := uint64(0)
		for i := 0; i < steps; i++ {
			rep.Progress("C06 scenario %d seed %d step %d", sc, seed, i)
			st := w.View().AppState.State
			epochBefore := st.Epoch()
			res := s.Step()
			if len(res.Errs) > 0 {
				rep.Note("scenario %d stopped at step %d: block refused (%v)", sc, i, res.Errs)
				break
			}
			b := res.Block
			rep.Eval(1)
			rm.OnBlock(rep, b, epochBefore)
			for _, tx := range b.Body.Transactions {
				included = append(included, inc{tx, b.Height(), epochBefore})
			}
			// a reorg that does not revert old txs: one replica resets 2 blocks and re-applies them
			if i%37 == 36 && len(w.Blocks) > 4 {
				r := w.Replicas[len(w.Replicas)-2]
				if !r.Observer {
					r.enter()
					if _, err := r.Chain.ResetTo(r.Head().Height() - 2); err == nil {
						ok := true
						for _, ob := range w.Blocks[len(w.Blocks)-2:] {
							if err := r.AddBlock(ob); err != nil {
								rep.Note("re-adding canonical block after ResetTo failed: %v", err)
								ok = false
							}
						}
						if ok {
							reorged = r.Head().Height() - 2
							rep.Count("reorgs_done", 1)
						}
					}
				}
			}
			// a FRESH tx signed for another epoch (never included anywhere), force-appended to an
			// otherwise valid block: "a transaction signed for another epoch is never applied"
			if i%3 == 0 {
				if a := w.pickActor(s.R, func(a *Actor, _ stateIdentity) bool { return w.Balance(a.Addr).Cmp(Dna(50)) > 0 }); a != nil {
					cur := w.View().AppState.State.Epoch()
					for _, ep := range []uint16{cur + 1, cur + 2, cur - 1} {
						if ep == cur || ep > cur+2 {
							continue // cur-1 wraps at epoch 0
						}
						to := w.God.Addr
						nonce := uint32(1)
						if ep == cur {
							nonce = w.StateNonce(a)
						}
						tx := SignedTx(a, types.SendTx, &to, Dna(1), Dna(20), nil, nonce, ep, nil)
						err, usable := replayIntoBlock(twin, tx)
						if !usable {
							continue
						}
						rep.Eval(1)
						rep.Count("foreign_epoch_injections", 1)
						cls := "future-epoch"
						if ep < cur {
							cls = "past-epoch"
						}
						rep.Count("foreign_epoch_class:"+cls, 1)
						if err == nil {
							rep.Violation("foreign-epoch-tx-accepted-in-block:"+cls, fmt.Sprintf("block carrying a tx signed for epoch %d passed validation in epoch %d", ep, cur), nil)
						} else if !isReplayRefusal(err) {
							rep.Violation("foreign-epoch-tx-not-stopped-by-epoch-check:"+cls, fmt.Sprintf("block carrying a fresh tx signed for epoch %d got past the nonce/epoch checks in epoch %d; refused only later with: %v", ep, cur, err), nil)
						}
					}
				}
			}
			if len(included) == 0 || s.R.Intn(2) != 0 {
				continue
			}
			// ---- replay injector
			curEpoch := w.View().AppState.State.Epoch()
			for k := 0; k < 3; k++ {
				var x inc
				if k == 0 && len(b.Body.Transactions) > 0 {
					x = included[len(included)-1] // same-block class: replay immediately
				} else {
					x = included[s.R.Intn(len(included))]
				}
				class := "later-block"
				switch {
				case x.height == b.Height():
					class = "right-after-inclusion"
				case x.epoch != curEpoch:
					class = "after-epoch-change"
					if w.View().AppState.State.GetNonce(senderOf(x.tx)) == 0 && w.View().AppState.State.GetBalance(senderOf(x.tx)).Sign() == 0 {
						class = "after-epoch-change+account-cleared"
					}
				case x.height == b.Height()-1:
					class = "next-block"
				case reorged > 0 && x.height <= reorged:
					class = "after-reorg-not-reverting"
				}
				rep.Count("replay_class:"+class, 1)
				rep.Distinct(x.tx.Hash().Hex(), class)
				// (a) mempool path on two replicas (incl. the one that reorged)
				for _, r := range []*Replica{w.Replicas[0], w.Replicas[len(w.Replicas)-2]} {
					r.enter()
					err := r.TxPool.AddExternalTxs(validation.InboundTx, x.tx)
					rep.Eval(1)
					if err == nil {
						rep.Violation("replay-admitted-by-pool:"+class+":"+TxName(x.tx.Type), fmt.Sprintf("tx %x (%s, nonce %d, epoch %d) included at height %d was admitted again by the pool of %s at height %d (epoch %d)",
							x.tx.Hash().Bytes()[:6], TxName(x.tx.Type), x.tx.AccountNonce, x.tx.Epoch, x.height, r.Name, b.Height(), curEpoch), DescribeBlock(b))
						r.TxPool.Remove(x.tx)
					}
				}
				// (b) block path: force-appended to an otherwise valid block
				err, usable := replayIntoBlock(twin, x.tx)
				if !usable {
					rep.Count("replay_block_path_skipped", 1)
					continue
				}
				rep.Eval(1)
				rep.Count("replay_block_path", 1)
				if err == nil {
					rep.Violation("replay-accepted-in-block:"+class+":"+TxName(x.tx.Type), fmt.Sprintf("block carrying already included tx %x (height %d) passed validation at height %d", x.tx.Hash().Bytes()[:6], x.height, b.Height()+1), DescribeBlock(b))
				} else if !isReplayRefusal(err) {
					rep.Violation("replay-not-stopped-by-replay-protection:"+class+":"+TxName(x.tx.Type), fmt.Sprintf("block carrying already included tx %x (%s nonce %d epoch %d, included at %d) got past the nonce/epoch checks at height %d (epoch %d); refused only later with: %v",
						x.tx.Hash().Bytes()[:6], TxName(x.tx.Type), x.tx.AccountNonce, x.tx.Epoch, x.height, b.Height()+1, curEpoch, err), DescribeBlock(b))
				}
				if rep.Get("samples_taken") < 4 {
					rep.Count("samples_taken", 1)
					rep.Sample(map[string]interface{}{"replayed": TxName(x.tx.Type), "included_at": x.height, "replayed_at": b.Height() + 1, "class": class, "block_validation_error": fmt.Sprint(err)})
				}
			}
		}
		flushCounters(rep, w, s)
		w.Cleanup()
	}
}

// ---------------------------------------------------------------------------------- C10

func TestVerifC10(t *testing.T) {
	if !verifutil.Enabled() {
		t.Skip("verif harness")
	}
	rep := verifutil.NewReport()
	defer rep.Write()
	nScen := verifutil.Scale(2, 14)
	steps := verifutil.Scale(300, 450)
	for sc := 0; sc < nScen; sc++ {
		seed := scenSeed(sc)
		o := optsFor(sc, seed)
		o.NIdent += 8
		w := NewWorld(o)
		if !startScenario(w, rep, false) {
			w.Cleanup()
			continue
		}
		s := NewScenario(w, verifutil.NewRng(seed, 10))
		s.Hostile, s.MaxTxs = 10, 8
		seenDiff := map[string]bool{}
		story := &poolStory{}
		for i := 0; i < steps; i++ {
			rep.Progress("C10 scenario %d seed %d step %d", sc, seed, i)
			story.advance(w, s, rep)
			// bias to identity-changing events batched into one identity-update block
			if s.R.Intn(2) == 0 {
				for _, g := range w.Burst(s.R) {
					s.SubmitGen(g)
				}
			}
			res := s.Step()
			if len(res.Errs) > 0 {
				rep.Note("scenario %d stopped at step %d: block refused (%v)", sc, i, res.Errs)
				break
			}
			b := res.Block
			rep.Eval(1)
			rep.Count("kind:"+BlockKind(b), 1)
			// a restarted and a rolled-back replica must present the same view
			if i%41 == 40 {
				r := w.Replicas[len(w.Replicas)-1]
				if err := r.Restart(); err != nil {
					rep.Violation("restart-failed", fmt.Sprintf("clean restart at block boundary %d failed: %v", b.Height(), err), nil)
				}
				rep.Count("restarts", 1)
			}
			if i%29 == 28 && len(w.Blocks) > 5 && len(w.Replicas) > 2 {
				r := w.Replicas[1]
				r.enter()
				if _, err := r.Chain.ResetTo(r.Head().Height() - 3); err == nil {
					for _, ob := range w.Blocks[len(w.Blocks)-3:] {
						if err := r.AddBlock(ob); err != nil {
							rep.Note("re-adding canonical block after ResetTo failed: %v", err)
						}
					}
					rep.Count("rollbacks", 1)
				}
			}
			for _, r := range w.Replicas {
				if r.Alive && r.Head().Hash() == b.Hash() {
					CheckValidators(w, r, rep, b)
				}
			}
			if d := w.View().Chain.GetIdentityDiff(b.Height()); d != nil && !d.Empty() {
				cls := diffClass(w, d)
				rep.Count("identity_diffs_nonempty", 1)
				for _, c := range strings.Split(cls, ",") {
					if c != "" {
						rep.Count("diff_event:"+c, 1)
					}
				}
				if !seenDiff[fmt.Sprint(d.Values)] {
					seenDiff[fmt.Sprint(d.Values)] = true
					if strings.Contains(cls, "pool") || strings.Contains(cls, "delegat") || strings.Contains(cls, "discriminated") {
						rep.Distinct(b.Hash().Hex())
					}
				}
				if rep.Get("samples_taken") < 3 && strings.Contains(cls, "delegat") {
					rep.Count("samples_taken", 1)
					rep.Sample(map[string]interface{}{"block": DescribeBlock(b), "identity_diff_events": cls, "entries": len(d.Values)})
				}
			}
		}
		flushCounters(rep, w, s)
		w.Cleanup()
	}
}

// diffClass names the event classes present in an identity diff.
func diffClass(w *World, d *state.IdentityStateDiff) string {
	m := map[string]bool{}
	for _, v := range d.Values {
		if v.Deleted {
			m["removed"] = true
			continue
		}
		var ai state.ApprovedIdentity
		if err := ai.FromBytes(v.Value); err != nil {
			continue
		}
		if ai.Online {
			m["online"] = true
		} else {
			m["offline"] = true
		}
		if ai.Delegatee != nil {
			m["delegated"] = true
		}
		if ai.Discriminated {
			m["discriminated"] = true
		}
		if ai.Validated {
			m["validated"] = true
		} else {
			m["pool-or-nonvalidated"] = true
		}
	}
	var l []string
	for k := range m {
		l = append(l, k)
	}
	return strings.Join(sortStrings(l), ",")
}

// poolStory drives one rare but legal life of a pool at a time: identities delegate to an owner
// that is NOT validated itself (suspended / zombie), the pool goes online, and then the owner
// terminates itself (or kills its last member) while the pool is online.
type poolStory struct {
	phase   int
	owner   *Actor
	members []*Actor
	waited  int
	ending  int
}

func (p *poolStory) reset() { *p = poolStory{ending: p.ending + 1} }

func (p *poolStory) advance(w *World, s *Scenario, rep *verifutil.Report) {
	v := w.View()
	st, vc := v.AppState.State, v.AppState.ValidatorsCache
	if st.ValidationPeriod() != state.NonePeriod {
		return // the txs of the story are refused during a ceremony; wait
	}
	p.waited++
	if p.waited > 60 {
		rep.Count("pool_story_abandoned_in_phase_"+fmt.Sprint(p.phase), 1)
		p.reset()
		return
	}
	switch p.phase {
	case 0:
		var owner *Actor
		var members []*Actor
		for _, a := range w.SortedActors() {
			id := st.GetIdentity(a.Addr)
			if a == w.God || isNode(w, a) || id.Delegatee() != nil || st.DelegationSwitch(a.Addr) != nil {
				continue
			}
			if owner == nil && (id.State == state.Suspended || id.State == state.Zombie) && !vc.IsPool(a.Addr) {
				owner = a
				continue
			}
			if len(members) < 2 && id.State.NewbieOrBetter() && !vc.IsPool(a.Addr) && st.GetBalance(a.Addr).Sign() > 0 {
				members = append(members, a)
			}
		}
		if owner == nil || len(members) == 0 {
			return
		}
		p.owner, p.members = owner, members
		for _, m := range members {
			s.SubmitGen(&Gen{Tx: w.Tx(m, types.DelegateTx, &owner.Addr, nil, nil), Kind: "story:Delegate-to-non-validated-owner"})
		}
		p.phase, p.waited = 1, 0
	case 1: // delegation applied?
		if s := st.GetIdentityState(p.owner.Addr); s != state.Suspended && s != state.Zombie {
			p.reset() // the owner's status changed (epoch): not the story any more
			return
		}
		if vc.IsPool(p.owner.Addr) {
			rep.Count("pool_story_pools_with_non_validated_owner", 1)
			if st.GetBalance(p.owner.Addr).Sign() == 0 {
				s.SubmitGen(&Gen{Tx: w.Tx(w.God, types.SendTx, &p.owner.Addr, Dna(50), nil), Kind: "story:fund-owner"})
			}
			s.SubmitGen(&Gen{Tx: w.Tx(p.owner, types.OnlineStatusTx, nil, nil, attachments.CreateOnlineStatusAttachment(true)), Kind: "story:pool-online"})
			p.phase, p.waited = 2, 0
		}
	case 2: // online?
		if !vc.IsPool(p.owner.Addr) {
			p.reset()
			return
		}
		if vc.IsOnlineIdentity(p.owner.Addr) {
			rep.Count("pool_story_non_validated_owner_online", 1)
			if p.ending%2 == 0 {
				if s0 := st.GetIdentityState(p.owner.Addr); s0 == state.Suspended || s0 == state.Zombie {
					s.SubmitGen(&Gen{Tx: w.Tx(p.owner, types.KillTx, nil, nil, nil), Kind: "story:online-non-validated-pool-owner-kills-itself"})
				}
			} else {
				for _, m := range p.members {
					if d := st.Delegatee(m.Addr); d != nil && *d == p.owner.Addr {
						mm := m.Addr
						s.SubmitGen(&Gen{Tx: w.Tx(p.owner, types.KillDelegatorTx, &mm, nil, nil), Kind: "story:online-pool-kills-its-members"})
					}
				}
			}
			p.phase, p.waited = 3, 0
		} else if p.waited%12 == 11 && !st.HasStatusSwitchAddresses(p.owner.Addr) {
			s.SubmitGen(&Gen{Tx: w.Tx(p.owner, types.OnlineStatusTx, nil, nil, attachments.CreateOnlineStatusAttachment(true)), Kind: "story:pool-online"})
		}
	case 3: // let a few blocks pass (the registry oracle runs after every block), then start over
		if p.waited > 8 {
			rep.Count("pool_stories_completed", 1)
			p.reset()
		}
	}
}

// inviterStory: an identity invites three or four addresses, some of them get stake, then the
// inviter terminates ITSELF (which severs all its invitation links) and afterwards its key tries
// to terminate each former invitee.
type inviterStory struct {
	phase    int
	inviter  *Actor
	invitees []*Actor
	waited   int
	round    int
}

func (p *inviterStory) reset() { *p = inviterStory{round: p.round + 1} }

func (p *inviterStory) advance(w *World, s *Scenario, twin *Replica, rep *verifutil.Report) {
	st := w.View().AppState.State
	if st.ValidationPeriod() != state.NonePeriod {
		if p.phase > 0 {
			p.reset() // an epoch in between changes who is what: start over afterwards
		}
		return
	}
	p.waited++
	if p.waited > 50 {
		rep.Count("inviter_story_abandoned_in_phase_"+fmt.Sprint(p.phase), 1)
		p.reset()
		return
	}
	switch p.phase {
	case 0:
		for _, a := range w.SortedActors() {
			id := st.GetIdentity(a.Addr)
			if a == w.God || isNode(w, a) || id.Invites < 3 || !(id.State == state.Verified || id.State == state.Human) || len(id.Invitees) > 0 || st.GetBalance(a.Addr).Cmp(Dna(20)) < 0 {
				continue
			}
			p.inviter = a
			break
		}
		if p.inviter == nil {
			return
		}
		n := 4 + p.round%2
		for k := 0; k < n; k++ {
			inv := w.AddActor("sinvitee", p.round*10+k)
			p.invitees = append(p.invitees, inv)
			s.SubmitGen(&Gen{Tx: w.Tx(p.inviter, types.InviteTx, &inv.Addr, Dna(2), nil), Kind: "story:Invite"})
		}
		p.phase, p.waited = 1, 0
	case 1: // invitations mined? give the invitees some stake and let one of them activate
		have := 0
		for _, inv := range p.invitees {
			if id := st.GetIdentity(inv.Addr); id.Inviter != nil && id.Inviter.Address == p.inviter.Addr {
				have++
			}
		}
		if have < 3 {
			return
		}
		for k, inv := range p.invitees {
			if st.GetIdentityState(inv.Addr) == state.Invite {
				ia := inv.Addr
				s.SubmitGen(&Gen{Tx: w.Tx(w.God, types.ReplenishStakeTx, &ia, Dna(int64(3+k)), nil), Kind: "story:ReplenishStake-of-invitee"})
				if k != 0 { // one invitation stays pending, the others are activated (they enter the inviter's invitee list)
					s.SubmitGen(&Gen{Tx: w.Tx(inv, types.ActivationTx, &ia, nil, inv.Pub), Kind: "story:Activation"})
				}
			}
		}
		p.phase, p.waited = 2, 0
	case 2: // stakes in? the inviter terminates itself
		staked, listed := 0, len(st.GetIdentity(p.inviter.Addr).Invitees)
		for _, inv := range p.invitees {
			if st.GetStakeBalance(inv.Addr).Sign() > 0 {
				staked++
			}
		}
		if (staked < 2 || listed < 3) && p.waited < 8 {
			return
		}
		if listed >= 3 {
			rep.Count("inviter_story_inviters_with_3_or_more_activated_invitees", 1)
		}
		rep.Count("inviter_story_inviters_with_3_or_more_invitees", 1)
		s.SubmitGen(&Gen{Tx: w.Tx(p.inviter, types.KillTx, nil, nil, nil), Kind: "story:inviter-terminates-itself"})
		p.phase, p.waited = 3, 0
	case 3:
		if ss := st.GetIdentityState(p.inviter.Addr); ss != state.Killed && ss != state.Undefined {
			return
		}
		if st.GetBalance(p.inviter.Addr).Cmp(Dna(1)) < 0 {
			s.SubmitGen(&Gen{Tx: w.Tx(w.God, types.SendTx, &p.inviter.Addr, Dna(10), nil), Kind: "story:fund-former-inviter"})
			return
		}
		for _, inv := range p.invitees {
			ia := inv.Addr
			if ss := st.GetIdentityState(ia); ss == state.Invite || ss == state.Candidate {
				g := &Gen{Tx: w.Tx(p.inviter, types.KillInviteeTx, &ia, nil, nil), Kind: "relation:KillInvitee/by-former-inviter-that-terminated-itself"}
				rep.Count("attempted:"+g.Kind, 1)
				if st.GetStakeBalance(ia).Sign() > 0 {
					rep.Count("attempted:"+g.Kind+"/invitee-has-stake", 1)
				}
				twinSpend(w, twin, rep, g)
			}
		}
		rep.Count("inviter_stories_completed", 1)
		p.reset()
	}
}
