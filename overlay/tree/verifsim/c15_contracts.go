package verifsim

// C15 — contract execution is atomic, pays for itself and cannot overspend.
// This file holds the workload side of the monitor: bookkeeping of contract instances,
// generators of deploy/call/terminate transactions for every embedded contract type and the
// bundled WASM contracts (valid shapes derived from the on-chain contract state, and mutated
// ones), and observation helpers that read twin post-states. The oracles live in c15_test.go.

import (
	"bytes"
	"encoding/binary"
	"encoding/hex"
	"fmt"
	"math/big"
	"sort"
	"time"

	"github.com/golang/protobuf/proto"
	"github.com/idena-network/idena-go/blockchain/attachments"
	"github.com/idena-network/idena-go/blockchain/fee"
	"github.com/idena-network/idena-go/blockchain/types"
	"github.com/idena-network/idena-go/common"
	"github.com/idena-network/idena-go/core/appstate"
	"github.com/idena-network/idena-go/core/state"
	"github.com/idena-network/idena-go/crypto"
	"github.com/idena-network/idena-go/verifutil"
	"github.com/idena-network/idena-go/vm/embedded"
	"github.com/idena-network/idena-go/vm/wasm"
	"github.com/idena-network/idena-go/vm/wasm/testdata"
	wasmlib "github.com/idena-network/idena-wasm-binding/lib"
	wasmmodels "github.com/idena-network/idena-wasm-binding/lib/protobuf"
)

// ------------------------------------------------------------------ kinds

const (
	kTimeLock = "TimeLock"
	kMultisig = "Multisig"
	kOV       = "OracleVoting"
	kOL       = "OracleLock"
	kROL      = "RefundableOracleLock"
	kErc20    = "wasm:erc20"
	kInc      = "wasm:inc_func"
	kSum      = "wasm:sum_func"
	kSft      = "wasm:shared-fungible-token-wallet"
	kCases    = "wasm:test-cases"
	// not a bundled contract: a 216-byte hand-assembled module (see c15SpenderHex) that forwards its
	// arguments to the host's create_transfer_promise / burn. None of the bundled contracts ever
	// moves coins, so without it "a contract can never send more than it holds" would not be
	// exercised for WASM at all.
	kSpender = "wasm:spender"
	// not a bundled contract either: a 215-byte hand-assembled module (see c15DeployerHex) that forwards
	// its arguments to the host's create_deploy_contract_promise. The bundled contracts cannot reach a
	// SUCCESSFUL sub-deployment on a chain (test-cases grants its sub-deployment 1e6 WASM gas, a
	// deployment costs > 3e6; the shared-fungible-token wallet has no way to mint tokens), so without
	// it "a contract created by another contract" would only ever be observed failing.
	kDeployer = "wasm:deployer"
)

// c15DeployerHex is the binary of
//
//	(module
//	  (import "env" "create_deploy_contract_promise" (func $deploy (param i32 i32 i32 i32 i32) (result i32)))
//	                                        ;; (code region, packed-arguments region, nonce region, amount region, gas limit)
//	  (memory (export "memory") 4)
//	  (global $heap (mut i32) (i32.const 8192))
//	  (func (export "allocate") (param $size i32) (result i32) (local $r i32)     ;; bump allocator of {offset,capacity,length} regions,
//	    global.get $heap  local.set $r                                             ;; sizes rounded up to 4 (the host reads regions at aligned addresses)
//	    (i32.store          (local.get $r) (i32.add (local.get $r) (i32.const 12)))
//	    (i32.store offset=4 (local.get $r) (local.get $size))
//	    (i32.store offset=8 (local.get $r) (i32.const 0))
//	    (global.set $heap (i32.add (i32.add (local.get $r) (i32.const 12)) (i32.and (i32.add (local.get $size) (i32.const 3)) (i32.const -4))))
//	    local.get $r)
//	  (func (export "deploy"))
//	  (func (export "make") (param $code i32) (param $args i32) (param $nonce i32) (param $amount i32) (param $gas i32)
//	    (drop (call $deploy (local.get $code) (local.get $args) (local.get $nonce) (local.get $amount)
//	                        (i32.load (i32.load (local.get $gas)))))))          ;; the gas limit is a plain i32: first 4 bytes (LE) of the 5th argument
//
// `make(code, packedArgs, nonce, amount, gas)` asks the host to deploy `code` as a new contract with
// `amount` of the deployer's coins and `gas` units of WASM gas. The new contract lives at
// wasm.ComputeContractAddr(code, packedArgs, nonce) - an address anybody can compute and send coins
// to beforehand. A sub-deployment that fails (too little gas, address taken) does not fail the call.
const c15DeployerHex = "0061736d01000000011a0460057f7f7f7f7f017f60017f017f60000060057f7f7f7f7f0002260103656e761e6372656174655f6465706c6f795f636f6e74726163745f70726f6d697365000003040301020305030100040608017f014180c0000b072504066d656d6f7279020008616c6c6f636174650001066465706c6f790002046d616b6500030a4d033201017f2300210120012001410c6a36020020012000360204200141003602082001410c6a200041036a417c716a240020010b02000b15002000200120022003200428020028020010001a0b"

// c15SpenderHex is the binary of
//
//	(module
//	  (import "env" "create_transfer_promise" (func $transfer (param i32 i32)))   ;; (address region, amount region)
//	  (import "env" "burn" (func $burn (param i32)))                              ;; (amount region)
//	  (memory (export "memory") 2)
//	  (global $heap (mut i32) (i32.const 8192))
//	  (func (export "allocate") (param $size i32) (result i32) (local $r i32)     ;; bump allocator of {offset,capacity,length} regions
//	    global.get $heap  local.set $r
//	    (i32.store          (local.get $r) (i32.add (local.get $r) (i32.const 12)))
//	    (i32.store offset=4 (local.get $r) (local.get $size))
//	    (i32.store offset=8 (local.get $r) (i32.const 0))
//	    (global.set $heap (i32.add (i32.add (local.get $r) (i32.const 12)) (local.get $size)))
//	    local.get $r)
//	  (func (export "deploy"))
//	  (func (export "send") (param $to i32) (param $amount i32) (call $transfer (local.get $to) (local.get $amount)))
//	  (func (export "burn") (param $amount i32) (call $burn (local.get $amount))))
//
// The host hands every call argument over as a region pointer, so `send(to, amount)` transfers
// `amount` (big-endian bytes) of the contract's coins to `to`, `burn(amount)` destroys them.
const c15SpenderHex = "0061736d01000000011b0660027f7f0060017f0060017f017f60000060027f7f0060017f00022a0203656e76176372656174655f7472616e736665725f70726f6d697365000003656e76046275726e00010305040203040505030100020608017f014180c0000b072c05066d656d6f7279020008616c6c6f636174650002066465706c6f7900030473656e640004046275726e00050a41042c01017f2300210120012001410c6a36020020012000360204200141003602082001410c6a20006a240020010b02000b08002000200110000b0600200010010b"

var c15EmbeddedKinds = []string{kTimeLock, kMultisig, kOV, kOL, kROL}
var c15WasmKinds = []string{kErc20, kInc, kSum, kSft, kCases, kSpender}

// (kDeployer is not part of the rotation of kinds: deployer contracts get a turn of their own per step, drawn from a
// PRNG stream of their own - C15Gen.RD -, so that the traffic of the other kinds does not depend on them)

var c15CodeHash = map[string]common.Hash{
	kTimeLock: embedded.TimeLockContract, kMultisig: embedded.MultisigContract, kOV: embedded.OracleVotingContract,
	kOL: embedded.OracleLockContract, kROL: embedded.RefundableOracleLockContract,
}

// methods a contract type understands (anything else is "unknown method")
var c15Methods = map[string][]string{
	kTimeLock: {"transfer"},
	kMultisig: {"add", "send", "push"},
	kOV:       {"startVoting", "sendVoteProof", "sendVote", "finishVoting", "prolongVoting", "addStake"},
	kOL:       {"push", "checkOracleVoting"},
	kROL:      {"deposit", "push", "refund"},
	kErc20:    {"transfer", "approve", "transferFrom", "getBalance", "allowance"},
	kInc:      {"inc"},
	kSum:      {"invoke", "_sum"},
	kSft:      {"transferTo", "getBalance", "receive", "_addBalance"},
	kCases:    {"test", "_deployCallback"},
	kSpender:  {"send", "burn"},
	kDeployer: {"make"},
}

var c15KnownMethod = map[string]bool{}

var c15WasmCode = map[string][]byte{}
var c15WasmByHash = map[common.Hash]string{}

func init() {
	load := func(kind string, f func() ([]byte, error)) {
		code, err := f()
		if err != nil {
			panic(err)
		}
		c15WasmCode[kind] = code
		c15WasmByHash[crypto.Hash(code)] = kind
	}
	load(kErc20, testdata.Erc20)
	load(kInc, testdata.IncFunc)
	load(kSum, testdata.SumFunc)
	load(kSft, testdata.SharedFungibleToken)
	load(kCases, testdata.TestCases)
	load(kSpender, func() ([]byte, error) { return hex.DecodeString(c15SpenderHex) })
	load(kDeployer, func() ([]byte, error) { return hex.DecodeString(c15DeployerHex) })
	for _, l := range c15Methods {
		for _, m := range l {
			c15KnownMethod[m] = true
		}
	}
}

func c15IsWasmKind(kind string) bool { return len(kind) > 5 && kind[:5] == "wasm:" }

// c15KindOfHash names the contract type behind a code hash.
func c15KindOfHash(h *common.Hash) string {
	if h == nil {
		return "none"
	}
	for _, k := range c15EmbeddedKinds {
		if c15CodeHash[k] == *h {
			return k
		}
	}
	if k, ok := c15WasmByHash[*h]; ok {
		return k
	}
	return "wasm:other"
}

// c15Versioned distinguishes the two implementations selected by the consensus version.
func c15Versioned(kind string, upgrade10 bool) string {
	if kind == kOV || kind == kROL {
		if upgrade10 {
			return kind + "2"
		}
		return kind + "1"
	}
	return kind
}

func c15MethodClass(m string) string {
	if c15KnownMethod[m] {
		return m
	}
	return "unknown-method"
}

// ------------------------------------------------------------------ instances

type C15Contract struct {
	Kind     string
	Addr     common.Address
	Owner    *Actor
	Born     int
	Deployed bool // seen in the canonical chain
	Dead     bool // terminated (or never made it into the chain)
	// parameters the generator needs to build valid calls
	Timestamp  uint64 // TimeLock
	MaxVotes   byte   // Multisig
	MinVotes   byte
	Added      []*Actor         // Multisig: voters the owner tried to add
	Specials   []common.Address // Multisig: voters that are no key holders (the contract itself, ...)
	PropDest   common.Address   // Multisig: proposal voters converge on
	PropAmount *big.Int
	Salts      map[common.Address][]byte // OV: voter -> salt
	Votes      map[common.Address]byte   // OV: voter -> vote
	VotingDur  uint64
	MinPayment *big.Int
	StartTime  uint64
	OV         common.Address // OL / ROL: bound voting
	Value      byte
	Deadline   uint64                 // ROL
	Inc        common.Address         // sum_func: bound inc contract
	Holders    []*Actor               // erc20: who may hold tokens
	Abandon    bool                   // OV: never started (becomes terminable 30 days after its start time)
	Tries      map[common.Address]int // OV: reveal attempts per voter
	MultiTries int
	FinTries   int         // OV: finish / prolong attempts that went nowhere
	Lazy       bool        // OV: hardly anybody votes, so that the voting has to be prolonged
	Proofs     int         // OV: proofs sent in the current round
	PropTries  int         // Multisig
	Allow      [][2]*Actor // erc20: (holder, spender) pairs with an approval
	Plan       *c15SubPlan // deployer: the sub-deployment the next `make` call asks for
}

// c15SubPlan is a sub-deployment a deployer contract is going to ask for: the address of the new
// contract follows from (code, packed arguments, nonce) alone, so it is known - and can be sent
// coins - blocks before the call that creates the contract.
type c15SubPlan struct {
	Kind   string // contract type of the code
	Packed []byte // argument vector in the host's wire format
	Nonce  []byte
	Addr   common.Address
	Funded bool // an ordinary SendTx to Addr went to the chain in an EARLIER step
}

// C15Action is one generated contract transaction with what the harness knows about it.
type C15Action struct {
	Tx       *types.Transaction
	From     *Actor
	C        *C15Contract // target, or (deploy) the instance being created
	Kind     string       // contract type (versioned); "none" if the target is not a contract
	TxKind   string       // Deploy / Call / Terminate
	Method   string       // method class: known names verbatim, anything else "unknown-method"
	Shape    string       // "valid" or "mut:<what>"
	Args     [][]byte
	GasClass string
	Submit   bool // also goes to the real chain
	Urgent   bool
}

func (a *C15Action) Describe() string {
	to := "nil"
	if a.Tx.To != nil {
		to = fmt.Sprintf("%x", a.Tx.To[:4])
	}
	var as []string
	for _, x := range a.Args {
		as = append(as, fmt.Sprintf("%x", trunc(x, 24)))
	}
	return fmt.Sprintf("%s %s.%s from=%s to=%s nonce=%d amount=%v maxFee=%v tips=%v shape=%s gas=%s args=%v", a.TxKind, a.Kind, a.Method, a.From.Name, to,
		a.Tx.AccountNonce, a.Tx.AmountOrZero(), a.Tx.MaxFeeOrZero(), a.Tx.TipsOrZero(), a.Shape, a.GasClass, as)
}

// C15Multi is a designated several-transactions-in-one-block class.
type C15Multi struct {
	Class string // e.g. "OracleVoting2:sendVote+finishVoting"
	C     *C15Contract
	Acts  []*C15Action
	After []*C15Action // what goes to the real chain one block later if the class is unsafe there
}

type C15Gen struct {
	W          *World
	R          *verifutil.Rng
	Twin       *Replica
	Contracts  []*C15Contract
	Step       int
	Funded     []*Actor // actors with plenty of coins (identities and accounts)
	Kinds      []string // enabled contract types
	HostilePct int
	usedC      map[*C15Contract]bool
	usedS      map[common.Address]bool
	jumped     bool
	plain      []*types.Transaction // non-contract txs of the current batch (funding of contract addresses)
	// sub-deployments: deployer contracts (kDeployer) and the stream their turns are drawn from (nil = none)
	RD        *verifutil.Rng
	Deployers []*C15Contract
}

func NewC15Gen(w *World, twin *Replica, r *verifutil.Rng, kinds []string) *C15Gen {
	return &C15Gen{W: w, R: r, Twin: twin, Kinds: kinds, HostilePct: 35}
}

func (g *C15Gen) up10() bool { return g.W.Cons.EnableUpgrade10 }

// Fund lets god send coins to every identity and account so that deposits, stakes and large
// gas budgets are affordable; returns after the transfers are in the chain.
func (g *C15Gen) Fund(per *big.Int) error {
	w := g.W
	var targets []*Actor
	targets = append(targets, w.Idents...)
	targets = append(targets, w.Accounts...)
	g.Funded = append(g.Funded, w.Idents...)
	g.Funded = append(g.Funded, w.Accounts...)
	for len(targets) > 0 {
		n := minInt(len(targets), 24)
		for _, a := range targets[:n] {
			to := a.Addr
			if err := w.Submit(w.Tx(w.God, types.SendTx, &to, per, nil)); err != nil {
				return fmt.Errorf("funding tx refused: %v", err)
			}
		}
		targets = targets[n:]
		w.Tick(20 * time.Second)
		res := w.NextBlock(0)
		for n, e := range res.Errs {
			return fmt.Errorf("funding block refused by %s: %v", n, e)
		}
	}
	return nil
}

// ------------------------------------------------------------------ observation helpers

// C15StateKV returns the full contents of the WORKING state tree of a (check) state, i.e.
// including everything the block applied (validateBlock ends with Precommit).
func C15StateKV(as *appstate.AppState) map[string][]byte {
	m := map[string][]byte{}
	as.State.VerifIterateAll(func(k, v []byte) bool {
		m[string(k)] = append([]byte{}, v...)
		return false
	})
	return m
}

// c15DiffKeys lists the keys whose value differs between two state contents (sorted).
func c15DiffKeys(a, b map[string][]byte) []string {
	var keys []string
	for k, va := range a {
		if vb, ok := b[k]; !ok || !bytes.Equal(va, vb) {
			keys = append(keys, k)
		}
	}
	for k := range b {
		if _, ok := a[k]; !ok {
			keys = append(keys, k)
		}
	}
	sort.Strings(keys)
	return keys
}

// c15GlobalSansFee re-encodes a stored Global object with the fee-rate field blanked.
func c15GlobalSansFee(v []byte) []byte {
	if v == nil {
		return nil
	}
	var g state.Global
	if err := g.FromBytes(v); err != nil {
		return v
	}
	g.FeePerGas = nil
	out, _ := g.ToBytes()
	return out
}

func c15DescribeKey(k string) string {
	b := []byte(k)
	cls := KeyClass(b)
	switch cls {
	case "account", "identity":
		if len(b) >= 5 {
			return fmt.Sprintf("%s(%x)", cls, b[1:5])
		}
	case "contractStore":
		if len(b) >= 21 {
			return fmt.Sprintf("contractStore(%x:%q)", b[1:5], string(trunc(b[21:], 40)))
		}
	}
	return cls
}

// c15TxFee is the size-based fee of a tx at the fee rate of the state the block is applied on.
func c15TxFee(pre *appstate.AppState, tx *types.Transaction) *big.Int {
	return fee.CalculateFee(pre.ValidatorsCache.NetworkSize(), pre.State.FeePerGas(), tx)
}

type c15SubAction struct {
	Type     uint32
	OK       bool
	Contract common.Address
	Err      string
}

// c15WalkAction flattens the sub-actions of the WASM action result tree of a receipt.
func c15WalkAction(data []byte) (subs []c15SubAction, ok bool) {
	if len(data) == 0 {
		return nil, false
	}
	var ar wasmmodels.ActionResult
	if err := proto.Unmarshal(data, &ar); err != nil {
		return nil, false
	}
	var walk func(a *wasmmodels.ActionResult, d int)
	walk = func(a *wasmmodels.ActionResult, d int) {
		if d > 20 {
			return
		}
		for _, s := range a.SubActionResults {
			if s == nil {
				continue
			}
			if s.InputAction != nil {
				var ca common.Address
				ca.SetBytes(s.Contract)
				subs = append(subs, c15SubAction{Type: s.InputAction.ActionType, OK: s.Success, Contract: ca, Err: s.Error})
			}
			walk(s, d+1)
		}
	}
	walk(&ar, 0)
	return subs, true
}

// c15Dest is an address a contract tx names as a recipient.
type c15Dest struct {
	Addr  common.Address
	Value *big.Int // coins the method moves there when it succeeds; nil = it moves none (a vote, a voter, a stored parameter, tokens)
}

// c15DestsOf lists the recipients a contract tx names: from its argument vector or, for the
// oracle locks, from the parameters stored at deployment (read in the state WITHOUT the tx).
func c15DestsOf(kind string, tx *types.Transaction, rc *types.TxReceipt, tr *TwinResult) (out []c15Dest) {
	base := kind
	for len(base) > 0 && (base[len(base)-1] == '1' || base[len(base)-1] == '2') {
		base = base[:len(base)-1]
	}
	at := func(args [][]byte, i int) []byte {
		if i < len(args) {
			return args[i]
		}
		return nil
	}
	addArg := func(args [][]byte, i int, value *big.Int) {
		if b := at(args, i); len(b) > 0 {
			out = append(out, c15Dest{c15AddrOf(b), value})
		}
	}
	num := func(b []byte) *big.Int { return new(big.Int).SetBytes(b) }
	switch tx.Type {
	case types.DeployContractTx:
		att := attachments.ParseDeployContractAttachment(tx)
		if att == nil || len(att.Code) > 0 {
			return
		}
		switch base {
		case kOL:
			addArg(att.Args, 2, nil)
			addArg(att.Args, 3, nil)
		case kROL:
			addArg(att.Args, 0, nil)
			addArg(att.Args, 2, nil)
			addArg(att.Args, 3, nil)
		case kOV:
			addArg(att.Args, 10, nil)
		}
	case types.TerminateContractTx:
		att := attachments.ParseTerminateContractAttachment(tx)
		if att == nil || tx.To == nil {
			return
		}
		switch base {
		case kTimeLock, kMultisig, kROL:
			addArg(att.Args, 0, new(big.Int).Quo(bigOrZero(tr.Post0.State.GetContractStake(*tx.To)), big.NewInt(2)))
		}
	case types.CallContractTx:
		att := attachments.ParseCallContractAttachment(tx)
		if att == nil || tx.To == nil {
			return
		}
		addr := *tx.To
		st0 := tr.Post0.State
		held := new(big.Int).Add(st0.GetBalance(addr), tx.AmountOrZero()) // what the contract holds while the call runs
		stored := func(key string) []byte { return st0.GetContractValue(addr, []byte(key)) }
		switch base + "." + att.Method {
		case kTimeLock + ".transfer", kMultisig + ".push", kSpender + ".send":
			addArg(att.Args, 0, num(at(att.Args, 1)))
		case kMultisig + ".add", kMultisig + ".send", kErc20 + ".transfer", kErc20 + ".approve", kSft + ".transferTo":
			addArg(att.Args, 0, nil)
		case kErc20 + ".transferFrom":
			addArg(att.Args, 1, nil)
		case kOL + ".push":
			if c15B0(stored("isOracleVotingFinished")) == 1 {
				key := "failAddr"
				if c15B0(stored("hasVotedValue")) == 1 && c15B0(stored("voted")) == c15B0(stored("value")) {
					key = "successAddr"
				}
				out = append(out, c15Dest{c15AddrOf(stored(key)), held})
			}
		case kROL + ".push":
			// which way the lock opened is read from the state WITH the tx
			switch c15B0(tr.Post1.State.GetContractValue(addr, []byte("state"))) {
			case 2:
				out = append(out, c15Dest{c15AddrOf(stored("successAddr")), held})
			case 3:
				out = append(out, c15Dest{c15AddrOf(stored("failAddr")), held})
			}
		case kROL + ".deposit":
			// the share of the deposit that goes to the voting named at deployment
			rate := c15U64(stored("factEvidenceFee"))
			if c15B0(stored("ver")) != 2 {
				rate = 1000 * uint64(c15B0(stored("factEvidenceFee")))
			}
			feeShare := new(big.Int).Mul(tx.AmountOrZero(), new(big.Int).SetUint64(rate))
			out = append(out, c15Dest{c15AddrOf(stored("oracleVoting")), feeShare.Quo(feeShare, big.NewInt(100000))})
		}
	}
	return
}

// c15DestClass names the special-destination class of `ad` for a tx of `sender` addressed to (or
// deploying) contract `self`, evaluated in a block of `coinbase`.
func c15DestClass(ad, self, sender, coinbase common.Address, pre *state.StateDB) string {
	switch {
	case ad == self:
		return dSelf
	case ad == sender:
		return dSender
	case ad == common.Address{}:
		return dZero
	case ad == coinbase:
		return dProposer
	case ad == pre.GodAddress():
		return dGod
	case pre.GetCodeHash(ad) != nil:
		return dContract
	}
	return dOther
}

func c15U64(b []byte) uint64 {
	if len(b) < 8 {
		return 0
	}
	return binary.LittleEndian.Uint64(b)
}

func c15B0(b []byte) byte {
	if len(b) == 0 {
		return 0
	}
	return b[0]
}

func c15AddrOf(b []byte) common.Address {
	var a common.Address
	a.SetBytes(b)
	return a
}

// ------------------------------------------------------------------ tx assembly

func (g *C15Gen) st() *state.StateDB { return g.W.View().AppState.State }

func (g *C15Gen) cval(c common.Address, key string) []byte {
	return g.st().GetContractValue(c, []byte(key))
}

func (g *C15Gen) alive(c *C15Contract) bool {
	return c != nil && !c.Dead && g.st().GetCodeHash(c.Addr) != nil
}

func (g *C15Gen) fpg() *big.Int { return g.st().FeePerGas() }

func (g *C15Gen) minStake() *big.Int {
	return new(big.Int).Mul(g.fpg(), big.NewInt(3000000))
}

// nextHeight / nextTime: what a contract executed in the next block will see (approximately for time)
func (g *C15Gen) nextHeight() uint64 { return g.W.View().Head().Height() + 1 }
func (g *C15Gen) nextTime() uint64   { return uint64(g.W.Now().Unix()) + 15 }

// exactMaxFee returns the MaxFee that buys exactly `gas` units for the tx described by probe.
func (g *C15Gen) exactMaxFee(probe *types.Transaction, gas int64) *big.Int {
	v := g.W.View()
	fpg := v.AppState.State.FeePerGas()
	ns := v.AppState.ValidatorsCache.NetworkSize()
	minFpg := fee.GetFeePerGasForNetwork(ns)
	p := *probe
	p.MaxFee = Dna(1)
	var mf *big.Int
	for i := 0; i < 4; i++ {
		txFee := fee.CalculateFee(ns, fpg, &p)
		mf = new(big.Int).Add(txFee, new(big.Int).Mul(fpg, big.NewInt(gas)))
		// admission additionally wants MaxFee >= fee at the minimal rate
		if minFee := fee.CalculateFee(ns, minFpg, &p); mf.Cmp(minFee) < 0 {
			mf = minFee
		}
		if p.MaxFee.Cmp(mf) == 0 {
			break
		}
		p.MaxFee = mf
	}
	return mf
}

// gas budget classes: the MaxFee a tx declares decides how much gas it may burn
func (g *C15Gen) maxFeeFor(probe *types.Transaction, class string, wasmTx bool) *big.Int {
	gas := int64(0)
	switch class {
	case "exact": // no gas at all
	case "tiny":
		gas = int64(g.R.Range(1, 60))
	case "low":
		if wasmTx {
			gas = int64(g.R.Range(500, 30000))
		} else {
			gas = int64(g.R.Range(60, 1500))
		}
	case "ample":
		if wasmTx {
			gas = int64(g.R.Range(100000, 400000))
		} else {
			gas = int64(g.R.Range(20000, 60000))
		}
	case "max": // right at the admission cap (MaxFee / minFeePerGas <= max block gas)
		ns := g.W.View().AppState.ValidatorsCache.NetworkSize()
		return new(big.Int).Mul(fee.GetFeePerGasForNetwork(ns), big.NewInt(int64(types.MaxBlockSize(g.W.Cons.EnableUpgrade11))))
	}
	return g.exactMaxFee(probe, gas)
}

func (g *C15Gen) pickGasClass() string {
	switch g.R.Pick(76, 4, 6, 10, 4) {
	case 0:
		return "ample"
	case 1:
		return "exact"
	case 2:
		return "tiny"
	case 3:
		return "low"
	}
	return "max"
}

func (g *C15Gen) sign(from *Actor, t types.TxType, to *common.Address, amount *big.Int, payload []byte, gasClass string, wasmTx bool, tips *big.Int) *types.Transaction {
	ep := g.st().Epoch()
	probe := &types.Transaction{AccountNonce: g.W.NextNonce(from), Epoch: ep, Type: t, To: to, Amount: amount, Payload: payload, MaxFee: Dna(1), Tips: tips}
	maxFee := g.maxFeeFor(probe, gasClass, wasmTx)
	return SignedTx(from, t, to, amount, maxFee, tips, probe.AccountNonce, ep, payload)
}

// WithGas re-signs the tx of an action with a MaxFee that buys exactly `gas` units (same nonce).
func (g *C15Gen) WithGas(a *C15Action, gas int64) *C15Action { return g.WithGasRem(a, gas, 0) }

// WithGasRem: the MaxFee buys `gas` whole units and leaves remPermille/1000 of the price of one
// more unit over (a fraction of a unit buys nothing).
func (g *C15Gen) WithGasRem(a *C15Action, gas int64, remPermille int64) *C15Action {
	tx := a.Tx
	probe := &types.Transaction{AccountNonce: tx.AccountNonce, Epoch: tx.Epoch, Type: tx.Type, To: tx.To, Amount: tx.Amount, Payload: tx.Payload, Tips: tx.Tips}
	b := *a
	mf := g.exactMaxFee(probe, gas)
	if remPermille > 0 {
		fpg := g.W.View().AppState.State.FeePerGas()
		mf = new(big.Int).Add(mf, new(big.Int).Div(new(big.Int).Mul(fpg, big.NewInt(remPermille)), big.NewInt(1000)))
	}
	b.Tx = SignedTx(a.From, tx.Type, tx.To, tx.Amount, mf, tx.Tips, tx.AccountNonce, tx.Epoch, tx.Payload)
	b.GasClass = "sweep"
	b.Submit = false
	return &b
}

func c15Addr(r *verifutil.Rng) common.Address {
	var a common.Address
	copy(a[:], r.Bytes(20))
	return a
}

func u64b(v uint64) []byte { return common.ToBytes(v) }

// ------------------------------------------------------------------ candidates

// cand is one intended contract interaction before it is turned into a transaction
type cand struct {
	txKind string // Deploy / Call / Terminate
	kind   string // base contract type
	c      *C15Contract
	from   *Actor
	method string
	amount *big.Int
	args   [][]byte
	code   []byte
	nonce  []byte
	shape  string
	urgent bool
	noMut  bool
	gas    string
	onMut  func() // called when the candidate gets mutated
}

func (g *C15Gen) rich(min *big.Int) *Actor {
	l := g.Funded
	off := g.R.Intn(len(l))
	for i := range l {
		a := l[(i+off)%len(l)]
		if !g.usedS[a.Addr] && g.st().GetBalance(a.Addr).Cmp(min) >= 0 {
			return a
		}
	}
	return nil
}

// pusher: the destination of a Multisig proposal pushes it itself when it is a funded key holder
func (g *C15Gen) pusher(dest common.Address) *Actor {
	if a := g.richOr(g.W.ByAddr[dest], Dna(60)); a != nil && g.R.Bool() {
		return a
	}
	return g.rich(Dna(60))
}

func (g *C15Gen) richOr(a *Actor, min *big.Int) *Actor {
	if a != nil && !g.usedS[a.Addr] && g.st().GetBalance(a.Addr).Cmp(min) >= 0 {
		return a
	}
	return nil
}

func (g *C15Gen) other(not *Actor) *Actor {
	for i := 0; i < 8; i++ {
		a := g.rich(Dna(100))
		if a != nil && a != not {
			return a
		}
	}
	return nil
}

func (g *C15Gen) someAddr() common.Address {
	switch g.R.Intn(6) {
	case 0:
		return c15Addr(g.R)
	case 1:
		if len(g.Contracts) > 0 {
			return g.Contracts[g.R.Intn(len(g.Contracts))].Addr
		}
	}
	return g.Funded[g.R.Intn(len(g.Funded))].Addr
}

// special-destination classes of an address argument, relative to the tx that carries it
const (
	dSelf     = "self"     // the contract the tx is addressed to (or deploys)
	dSender   = "sender"   // the signer of the tx
	dZero     = "zero"     // the zero address
	dContract = "contract" // another contract
	dProposer = "proposer" // the coinbase of the block the tx is evaluated in
	dGod      = "god"      // the god address
	dOther    = "other"
)

// destFor picks the address argument of a method that names a recipient: an ordinary address in
// about half of the cases, otherwise one of the special classes - above all the contract's OWN
// address `self` (for deployments the address the contract is going to have).
func (g *C15Gen) destFor(self common.Address, from *Actor) common.Address {
	r := g.R
	switch r.Pick(44, 20, 8, 6, 8, 7, 7) {
	case 1:
		return self
	case 2:
		if from != nil {
			return from.Addr
		}
	case 3:
		return common.Address{}
	case 4:
		var l []common.Address
		for _, c := range g.Contracts {
			if c.Addr != self && g.alive(c) {
				l = append(l, c.Addr)
			}
		}
		if len(l) > 0 {
			return l[r.Intn(len(l))]
		}
		return self
	case 5:
		if g.Twin != nil && g.Twin.Owner != nil {
			return g.Twin.Owner.Addr
		}
	case 6:
		return g.W.God.Addr
	}
	return g.someAddr()
}

// termDest: who gets the refunded half of the stake of a terminated contract - in a third of
// the cases the contract that is being terminated
func (g *C15Gen) termDest(c *C15Contract, from *Actor) common.Address {
	if g.R.Intn(3) == 0 {
		return c.Addr
	}
	return g.destFor(c.Addr, from)
}

// futureAddr is the address an embedded contract deployed by `from` with its next nonce will get.
func (g *C15Gen) futureAddr(from *Actor) common.Address {
	if from == nil {
		return common.Address{}
	}
	return ContractAddr(from.Addr, &types.Transaction{Epoch: g.st().Epoch(), AccountNonce: g.W.NextNonce(from)})
}

func (g *C15Gen) live(kind string) []*C15Contract {
	var l []*C15Contract
	for _, c := range g.Contracts {
		if c.Kind == kind && g.alive(c) {
			l = append(l, c)
		}
	}
	return l
}

// newDeploy proposes the deployment of one instance of kind.
func (g *C15Gen) newDeploy(kind string) *cand {
	r := g.R
	now := g.nextTime()
	c := &C15Contract{Kind: kind, Born: g.Step}
	cd := &cand{txKind: "Deploy", kind: kind, c: c, method: "deploy", shape: "valid"}
	if c15IsWasmKind(kind) {
		cd.code = c15WasmCode[kind]
		cd.nonce = r.Bytes(r.Range(1, 4))
		cd.amount = big.NewInt(0)
		if r.Intn(4) == 0 {
			cd.amount = Dna(int64(r.Range(1, 20)))
		}
		c.Owner = g.rich(Dna(3500))
		switch kind {
		case kSpender, kDeployer:
			cd.amount = Dna(int64(r.Range(1, 40))) // the pay amount is what the contract will have to spend
		case kSum:
			if l := g.live(kInc); len(l) > 0 {
				c.Inc = l[r.Intn(len(l))].Addr
			} else {
				c.Inc = c15Addr(r)
			}
			cd.args = [][]byte{c.Inc.Bytes()}
		case kSft:
			if c.Owner != nil {
				cd.args = [][]byte{c.Owner.Addr.Bytes(), g.someAddr().Bytes()}
			}
		}
	} else {
		cd.amount = new(big.Int).Add(g.minStake(), big.NewInt(int64(r.Intn(100000))))
		c.Owner = g.rich(new(big.Int).Add(cd.amount, Dna(3000)))
		switch kind {
		case kTimeLock:
			c.Timestamp = uint64(int64(now) + int64(r.Range(-200, 900)))
			cd.args = [][]byte{u64b(c.Timestamp)}
		case kMultisig:
			c.MaxVotes = byte(r.Range(1, 3))
			c.MinVotes = byte(r.Range(1, int(c.MaxVotes)))
			cd.args = [][]byte{{c.MaxVotes}, {c.MinVotes}}
		case kOV:
			ns := uint64(g.W.View().AppState.ValidatorsCache.NetworkSize())
			c.StartTime = uint64(int64(now) + int64(r.Range(-100, 120)))
			c.VotingDur = uint64(r.Range(3, 7))
			committee := ns
			if r.Intn(4) == 0 {
				committee = ns * 2 / 3
			}
			c.MinPayment = big.NewInt(0)
			if r.Bool() {
				c.MinPayment = Dna(int64(r.Range(1, 3)))
			}
			ownerFee := byte(0)
			if r.Intn(3) == 0 {
				ownerFee = byte(r.Range(1, 30))
			}
			cd.args = [][]byte{r.Bytes(r.Range(4, 40)), u64b(c.StartTime), u64b(c.VotingDur), u64b(100), {byte(r.Range(51, 80))}, {byte(r.Range(1, 20))},
				u64b(committee), c.MinPayment.Bytes(), {ownerFee}}
			if c.MinPayment.Sign() == 0 {
				cd.args[7] = []byte{0}
			}
			if ownerFee > 0 && r.Bool() {
				cd.args = append(cd.args, Dna(int64(r.Range(1, 50))).Bytes())
				if r.Bool() {
					cd.args = append(cd.args, g.destFor(g.futureAddr(c.Owner), c.Owner).Bytes()) // refund recipient
				}
			}
			c.Salts, c.Votes, c.Tries = map[common.Address][]byte{}, map[common.Address]byte{}, map[common.Address]int{}
			c.Abandon = r.Intn(4) == 0
			c.Lazy = !c.Abandon && r.Intn(4) == 0
			if c.Lazy {
				cd.args[5] = []byte{byte(r.Range(15, 30))} // quorum nobody will reach
				cd.args[6] = u64b(ns)
			}
		case kOL, kROL:
			if l := g.live(kOV); len(l) > 0 && r.Intn(4) != 0 {
				c.OV = l[r.Intn(len(l))].Addr
			} else {
				c.OV = c15Addr(r) // a voting that does not exist
			}
			c.Value = byte(r.Range(1, 2))
			self := g.futureAddr(c.Owner)
			succ, fail := g.destFor(self, c.Owner), g.destFor(self, c.Owner)
			if kind == kROL && r.Intn(4) == 0 {
				c.OV = self // the lock names ITSELF as its voting: every deposit sends the voting fee to itself
			}
			if kind == kOL {
				cd.args = [][]byte{c.OV.Bytes(), {c.Value}, succ.Bytes(), fail.Bytes()}
			} else {
				c.Deadline = now + uint64(r.Range(200, 4000))
				feeArg := u64b(uint64(r.Range(0, 5000)))
				if !g.up10() {
					feeArg = []byte{byte(r.Range(1, 20))}
				}
				sa, fa := succ.Bytes(), fail.Bytes()
				if r.Intn(3) == 0 {
					sa = nil
				}
				if r.Intn(3) == 0 {
					fa = nil
				}
				cd.args = [][]byte{c.OV.Bytes(), {c.Value}, sa, fa, u64b(uint64(r.Range(0, 3))), u64b(c.Deadline), feeArg}
			}
		}
	}
	if c.Owner == nil {
		return nil
	}
	cd.from = c.Owner
	return cd
}

func (g *C15Gen) balanceOf(a common.Address) *big.Int { return g.st().GetBalance(a) }

// fundContract adds a plain SendTx to the contract address to the batch.
func (g *C15Gen) fundContract(c *C15Contract, amount *big.Int) {
	from := g.rich(new(big.Int).Add(amount, Dna(50)))
	if from == nil {
		return
	}
	g.usedS[from.Addr] = true
	to := c.Addr
	g.plain = append(g.plain, g.W.Tx(from, types.SendTx, &to, amount, nil))
}

// fundAddr adds a plain SendTx to an arbitrary address (e.g. one that is going to become a contract) to the batch.
func (g *C15Gen) fundAddr(to common.Address, amount *big.Int) bool {
	from := g.rich(new(big.Int).Add(amount, Dna(50)))
	if from == nil {
		return false
	}
	g.usedS[from.Addr] = true
	g.plain = append(g.plain, g.W.Tx(from, types.SendTx, &to, amount, nil))
	return true
}

// newSubPlan draws what a deployer contract creates next and - in half of the cases - sends coins to the
// address of the future contract right away (a plain SendTx of this batch, i.e. in the chain at least one
// block before the `make` call is evaluated).
func (g *C15Gen) newSubPlan(c *C15Contract) *c15SubPlan {
	r := g.R
	p := &c15SubPlan{Kind: []string{kSpender, kSpender, kSpender, kDeployer, kDeployer, kInc, kInc, kSft}[r.Intn(8)], Nonce: r.Bytes(r.Range(1, 6))}
	var args [][]byte
	if p.Kind == kSft {
		args = [][]byte{g.someAddr().Bytes(), g.someAddr().Bytes()}
	}
	p.Packed = wasmlib.PackArguments(args)
	p.Addr = wasm.ComputeContractAddr(c15WasmCode[p.Kind], p.Packed, p.Nonce)
	if r.Bool() && g.st().GetCodeHash(p.Addr) == nil {
		p.Funded = g.fundAddr(p.Addr, Dna(int64(r.Range(1, 60))))
	}
	return p
}

func u32le(v uint32) []byte { return []byte{byte(v), byte(v >> 8), byte(v >> 16), byte(v >> 24)} }

func (g *C15Gen) dust() *big.Int { return new(big.Int).Mul(g.fpg(), big.NewInt(100)) }

func part(v *big.Int, r *verifutil.Rng) *big.Int {
	if v.Sign() <= 0 {
		return big.NewInt(0)
	}
	switch r.Intn(4) {
	case 0:
		return new(big.Int).Set(v)
	case 1:
		return new(big.Int).Div(v, big.NewInt(2))
	}
	return new(big.Int).Div(v, big.NewInt(int64(r.Range(2, 40))))
}

// candidates proposes the next interactions with a live instance: what the on-chain state of
// the contract makes plausible, plus deliberately out-of-protocol ones.
func (g *C15Gen) candidates(c *C15Contract) []*cand {
	r := g.R
	var out []*cand
	add := func(txKind, method string, from *Actor, amount *big.Int, args ...[]byte) *cand {
		if from == nil || g.usedS[from.Addr] {
			return nil
		}
		if amount == nil {
			amount = big.NewInt(0)
		}
		cd := &cand{txKind: txKind, kind: c.Kind, c: c, from: from, method: method, amount: amount, args: args, shape: "valid"}
		out = append(out, cd)
		return cd
	}
	owner := g.richOr(c.Owner, Dna(60))
	bal := g.balanceOf(c.Addr)
	now := g.nextTime()
	switch c.Kind {
	case kTimeLock:
		if bal.Cmp(Dna(1)) < 0 && r.Intn(2) == 0 {
			if r.Bool() {
				// a transfer carrying a pay amount funds the contract if it succeeds
				add("Call", "transfer", owner, Dna(int64(r.Range(2, 60))), g.destFor(c.Addr, owner).Bytes(), big.NewInt(0).Bytes())
			} else {
				g.fundContract(c, Dna(int64(r.Range(2, 60))))
			}
		}
		add("Call", "transfer", owner, nil, g.destFor(c.Addr, owner).Bytes(), part(bal, r).Bytes())
		if bal.Sign() > 0 && r.Intn(3) == 0 {
			// a transfer to the contract ITSELF (with and without a pay amount on top)
			pay := big.NewInt(0)
			if r.Bool() {
				pay = Dna(int64(r.Range(1, 9)))
			}
			add("Call", "transfer", owner, pay, c.Addr.Bytes(), part(new(big.Int).Add(bal, pay), r).Bytes())
		}
		if r.Intn(3) == 0 {
			add("Call", "transfer", owner, nil, g.destFor(c.Addr, owner).Bytes(), new(big.Int).Add(bal, big.NewInt(int64(r.Range(1, 1000)))).Bytes()) // more than it holds
		}
		if r.Intn(4) == 0 {
			add("Call", "transfer", g.other(c.Owner), nil, g.destFor(c.Addr, owner).Bytes(), part(bal, r).Bytes())
		}
		if now >= c.Timestamp && (bal.Cmp(g.dust()) <= 0 || r.Intn(5) == 0) {
			add("Terminate", "terminate", owner, nil, g.termDest(c, owner).Bytes())
		} else if r.Intn(6) == 0 {
			add("Terminate", "terminate", owner, nil, g.termDest(c, owner).Bytes())
		}
		if r.Intn(8) == 0 {
			add("Terminate", "terminate", g.other(c.Owner), nil, g.destFor(c.Addr, owner).Bytes())
		}
	case kMultisig:
		st := c15B0(g.cval(c.Addr, "state"))
		if st == 1 { // uninitialized
			v := g.Funded[r.Intn(len(g.Funded))]
			// a voter that is not a key holder (the contract itself, the zero address, another
			// contract, ...) as long as enough seats remain for voters that can actually vote
			special, regular := 0, true
			for _, sa := range c.Specials {
				if g.st().GetContractValue(c.Addr, append([]byte("addr"), sa.Bytes()...)) != nil {
					special++
				}
			}
			if int(c.MaxVotes)-special > int(c.MinVotes) && r.Intn(2) == 0 {
				sa := g.destFor(c.Addr, owner)
				if r.Intn(5) < 3 {
					sa = c.Addr
				}
				if g.W.ByAddr[sa] == nil || owner != nil && sa == owner.Addr {
					if cd := add("Call", "add", owner, nil, sa.Bytes()); cd != nil {
						c.Specials = append(c.Specials, sa)
						regular = false
					}
				}
			}
			if regular {
				if cd := add("Call", "add", owner, nil, v.Addr.Bytes()); cd != nil {
					c.Added = append(c.Added, v)
				}
			}
			if r.Intn(4) == 0 {
				add("Call", "add", g.other(c.Owner), nil, v.Addr.Bytes())
			}
			if r.Intn(4) == 0 {
				add("Call", "push", owner, nil, g.destFor(c.Addr, owner).Bytes(), Dna(1).Bytes())
			}
		} else {
			if bal.Cmp(Dna(1)) < 0 && r.Intn(3) != 0 {
				g.fundContract(c, Dna(int64(r.Range(2, 60))))
			}
			// real voters = those whose add made it into the chain
			var voters []*Actor
			seen := map[common.Address]bool{}
			for _, v := range c.Added {
				if !seen[v.Addr] && g.st().GetContractValue(c.Addr, append([]byte("addr"), v.Addr.Bytes()...)) != nil {
					voters = append(voters, v)
					seen[v.Addr] = true
				}
			}
			if c.PropAmount == nil || c.PropTries > 10 {
				c.PropDest, c.PropAmount, c.PropTries = g.destFor(c.Addr, g.Funded[r.Intn(len(g.Funded))]), part(bal, r), 0
				if r.Intn(4) == 0 {
					c.PropDest = c.Addr // the voters agree on sending the funds to the multisig itself
				}
			}
			c.PropTries++
			matching := 0
			var missing []*Actor
			for _, v := range voters {
				d := g.st().GetContractValue(c.Addr, append([]byte("addr"), v.Addr.Bytes()...))
				am := g.st().GetContractValue(c.Addr, append([]byte("amount"), v.Addr.Bytes()...))
				if bytes.Equal(d, c.PropDest.Bytes()) && bytes.Equal(am, c.PropAmount.Bytes()) && len(c.PropAmount.Bytes()) > 0 {
					matching++
				} else {
					missing = append(missing, v)
				}
			}
			minVotes := int(c15B0(g.cval(c.Addr, "minVotes")))
			if matching >= minVotes && c.PropAmount.Sign() > 0 {
				// the destination itself pushes when it is one of the funded key holders
				add("Call", "push", g.pusher(c.PropDest), nil, c.PropDest.Bytes(), c.PropAmount.Bytes())
				add("Call", "push", g.rich(Dna(60)), nil, c.PropDest.Bytes(), c.PropAmount.Bytes()) // (twice: more weight)
			} else if len(missing) > 0 && c.PropAmount.Sign() > 0 {
				v := missing[r.Intn(len(missing))]
				d, am := c.PropDest, c.PropAmount
				if r.Intn(6) == 0 {
					d, am = g.destFor(c.Addr, v), part(bal, r)
				}
				add("Call", "send", g.richOr(v, Dna(60)), nil, d.Bytes(), am.Bytes())
			}
			if r.Intn(4) == 0 {
				add("Call", "push", g.rich(Dna(60)), nil, g.destFor(c.Addr, nil).Bytes(), new(big.Int).Add(bal, big.NewInt(7)).Bytes())
			}
			if r.Intn(6) == 0 {
				add("Call", "send", g.rich(Dna(60)), nil, g.destFor(c.Addr, nil).Bytes(), part(bal, r).Bytes()) // probably not a voter
			}
			if r.Intn(6) == 0 {
				add("Call", "add", owner, nil, g.destFor(c.Addr, owner).Bytes())
			}
		}
		if bal.Cmp(g.dust()) <= 0 && g.Step-c.Born > 45 && r.Intn(3) == 0 || r.Intn(14) == 0 {
			add("Terminate", "terminate", owner, nil, g.termDest(c, owner).Bytes())
		}
		if r.Intn(12) == 0 {
			add("Terminate", "terminate", g.other(c.Owner), nil, g.destFor(c.Addr, owner).Bytes())
		}
	case kOV:
		// life-cycle duties are generated by ovDuties; here only out-of-protocol extras
		if c15B0(g.cval(c.Addr, "state")) == 0 && now > c.StartTime+30*24*3600+60 && r.Intn(3) != 0 {
			add("Terminate", "terminate", g.rich(Dna(60)), nil) // abandoned pending voting: anybody may clean it up
			break
		}
		switch r.Intn(7) {
		case 0:
			add("Call", "addStake", g.rich(Dna(100)), Dna(int64(r.Range(0, 5))))
		case 1:
			add("Call", "finishVoting", g.rich(Dna(60)), nil)
		case 2:
			add("Call", "prolongVoting", g.rich(Dna(60)), nil)
		case 3:
			add("Terminate", "terminate", g.rich(Dna(60)), nil)
		case 4:
			add("Call", "sendVoteProof", g.rich(Dna(60)), c.MinPayment, r.Bytes(32))
		case 5:
			add("Call", "sendVote", g.rich(Dna(60)), nil, []byte{byte(r.Range(0, 3))}, r.Bytes(8))
		case 6:
			add("Call", "startVoting", g.rich(Dna(60)), Dna(int64(r.Range(0, 3))))
		}
	case kOL:
		if bal.Sign() == 0 && r.Intn(2) == 0 {
			if r.Bool() {
				add("Call", "checkOracleVoting", g.rich(Dna(100)), Dna(int64(r.Range(1, 30)))) // funds it when it succeeds
			} else {
				g.fundContract(c, Dna(int64(r.Range(1, 30))))
			}
		}
		add("Call", "checkOracleVoting", g.rich(Dna(60)), nil)
		add("Call", "push", g.rich(Dna(60)), nil)
		if r.Intn(3) == 0 {
			add("Terminate", "terminate", owner, nil)
		}
		if r.Intn(6) == 0 {
			add("Terminate", "terminate", g.other(c.Owner), nil)
		}
	case kROL:
		minDep := new(big.Int).Mul(g.fpg(), big.NewInt(10000))
		st := c15B0(g.cval(c.Addr, "state"))
		if now <= c.Deadline || r.Intn(4) == 0 {
			dep := new(big.Int).Add(minDep, Dna(int64(r.Range(0, 300))))
			if r.Intn(6) == 0 {
				dep = part(minDep, r) // too low
			}
			add("Call", "deposit", g.rich(new(big.Int).Add(dep, Dna(60))), dep)
			if c.OV == c.Addr {
				add("Call", "deposit", g.rich(new(big.Int).Add(dep, Dna(60))), dep) // (a lock that is its own voting: more weight)
			}
		}
		if st == 1 || r.Intn(4) == 0 {
			add("Call", "push", g.rich(Dna(60)), nil)
		}
		if st == 4 || r.Intn(4) == 0 {
			add("Call", "refund", g.rich(Dna(60)), nil)
		}
		if bal.Sign() == 0 && r.Intn(2) == 0 || r.Intn(8) == 0 {
			add("Terminate", "terminate", owner, nil, g.termDest(c, owner).Bytes())
		}
		if r.Intn(10) == 0 {
			add("Terminate", "terminate", g.other(c.Owner), nil, g.destFor(c.Addr, owner).Bytes())
		}
	case kErc20:
		if len(c.Holders) == 0 {
			c.Holders = []*Actor{c.Owner}
		}
		h := c.Holders[r.Intn(len(c.Holders))]
		to := g.Funded[r.Intn(len(g.Funded))]
		toAddr := to.Addr // recipient of a plain transfer: sometimes the holder itself or the token contract
		switch r.Intn(8) {
		case 0, 1, 2:
			to, toAddr = h, h.Addr
		case 3:
			toAddr = g.destFor(c.Addr, h)
			if a := g.W.ByAddr[toAddr]; a != nil {
				to = a
			} else {
				to = nil
			}
		}
		amt := big.NewInt(int64(r.Range(1, 5000)))
		pay := big.NewInt(0)
		if r.Intn(5) == 0 {
			pay = Dna(int64(r.Range(1, 9)))
		}
		switch r.Intn(8) {
		case 0, 1:
			if cd := add("Call", "transfer", g.richOr(h, Dna(300)), pay, toAddr.Bytes(), amt.Bytes()); cd != nil && len(c.Holders) < 6 && to != nil {
				c.Holders = append(c.Holders, to)
			}
		case 2, 6:
			// approvals by the deployer (who holds the supply) so that transferFrom can succeed later
			if to == nil {
				to = g.Funded[r.Intn(len(g.Funded))]
			}
			if cd := add("Call", "approve", g.richOr(c.Owner, Dna(300)), pay, to.Addr.Bytes(), amt.Bytes()); cd != nil && len(c.Allow) < 6 {
				c.Allow = append(c.Allow, [2]*Actor{c.Owner, to})
			}
		case 3, 7:
			if len(c.Allow) > 0 && r.Intn(5) != 0 {
				p := c.Allow[r.Intn(len(c.Allow))]
				add("Call", "transferFrom", g.richOr(p[1], Dna(300)), pay, p[0].Addr.Bytes(), toAddr.Bytes(), big.NewInt(int64(r.Range(1, 40))).Bytes())
			} else {
				add("Call", "transferFrom", g.rich(Dna(300)), pay, h.Addr.Bytes(), toAddr.Bytes(), amt.Bytes())
			}
		case 4:
			add("Call", "getBalance", g.rich(Dna(300)), pay, h.Addr.Bytes())
		case 5:
			add("Call", "transfer", g.rich(Dna(300)), pay, toAddr.Bytes(), new(big.Int).Lsh(big.NewInt(1), uint(r.Range(20, 120))).Bytes()) // more tokens than anybody has
		}
	case kInc:
		add("Call", "inc", g.rich(Dna(300)), nil, u64b(uint64(r.Intn(1000))))
	case kSum:
		add("Call", "invoke", g.rich(Dna(400)), nil, u64b(uint64(r.Intn(1000))), u64b(uint64(r.Intn(1000))))
		if r.Intn(5) == 0 {
			add("Call", "_sum", g.rich(Dna(300)), nil, u64b(1))
		}
	case kSft:
		switch r.Intn(4) {
		case 0:
			add("Call", "getBalance", g.rich(Dna(300)), nil)
		case 1:
			add("Call", "transferTo", g.richOr(c.Owner, Dna(300)), nil, g.destFor(c.Addr, c.Owner).Bytes(), big.NewInt(int64(r.Range(0, 5))).Bytes())
		case 2:
			add("Call", "receive", g.rich(Dna(300)), nil, big.NewInt(5).Bytes(), g.someAddr().Bytes())
		case 3:
			add("Call", "_addBalance", g.rich(Dna(300)), nil, big.NewInt(5).Bytes())
		}
	case kSpender:
		pay := big.NewInt(0)
		if r.Intn(3) == 0 || bal.Sign() == 0 {
			pay = Dna(int64(r.Range(1, 9)))
		}
		have := new(big.Int).Add(bal, pay)
		amt := part(have, r)
		switch r.Intn(5) {
		case 0:
			amt = new(big.Int).Add(have, big.NewInt(1)) // one unit more than it will hold
		case 1:
			amt = new(big.Int).Add(have, Dna(int64(r.Range(1, 1000))))
		}
		from := g.rich(new(big.Int).Add(pay, Dna(300)))
		if r.Intn(3) == 0 {
			add("Call", "burn", from, pay, amt.Bytes())
		} else {
			dest := g.destFor(c.Addr, from)
			if r.Intn(4) == 0 {
				dest = c.Addr
			}
			add("Call", "send", from, pay, dest.Bytes(), amt.Bytes())
		}
	case kDeployer:
		// every turn uses the plan drawn (and possibly pre-funded) in the previous turn and draws the next one
		p := c.Plan
		c.Plan = g.newSubPlan(c)
		if p == nil || g.st().GetCodeHash(p.Addr) != nil {
			break
		}
		pay := big.NewInt(0)
		if r.Intn(3) == 0 || bal.Sign() == 0 {
			pay = Dna(int64(r.Range(1, 9)))
		}
		have := new(big.Int).Add(bal, pay)
		amt := part(have, r).Bytes() // what the new contract is endowed with
		switch r.Intn(8) {
		case 0:
			amt = new(big.Int).Add(have, big.NewInt(1)).Bytes() // one unit more than the deployer will hold
		case 1, 2:
			amt = []byte{0} // nothing
		}
		gas := uint32(r.Range(3200000, 9000000)) // a deployment costs a little over 3e6 units of WASM gas
		switch r.Intn(10) {
		case 0:
			gas = uint32(r.Range(1, 3000000)) // the sub-deployment runs out of gas, the call goes on
		case 1:
			gas = 0xffffffff // more than the transaction has
		}
		add("Call", "make", g.rich(new(big.Int).Add(pay, Dna(400))), pay, c15WasmCode[p.Kind], p.Packed, p.Nonce, amt, u32le(gas))
	case kCases:
		sub := []string{kInc, kInc, kSum, kErc20}[r.Intn(4)]
		pay := big.NewInt(0)
		if r.Intn(3) == 0 {
			pay = Dna(int64(r.Range(1, 30)))
		}
		caseNo := uint32(1)
		if r.Intn(6) == 0 {
			caseNo = uint32(r.Range(0, 5))
		}
		add("Call", "test", g.rich(Dna(900)), pay, common.ToBytes(caseNo), c15WasmCode[sub])
	}
	return out
}

// ------------------------------------------------------------------ oracle voting life cycle

// ovDuties emits what keeps a voting moving: start, proofs while the secret phase is open,
// reveals afterwards, finish / prolong. Returns a designated same-block class when it decides
// that all outstanding reveals and the finishVoting that pays them go into ONE block.
func (g *C15Gen) ovDuties(c *C15Contract) (acts []*cand, multi *C15Multi) {
	r := g.R
	if g.usedC[c] {
		return
	}
	stv := c15B0(g.cval(c.Addr, "state"))
	mk := func(method string, from *Actor, amount *big.Int, args ...[]byte) *cand {
		if from == nil || g.usedS[from.Addr] {
			return nil
		}
		if amount == nil {
			amount = big.NewInt(0)
		}
		cd := &cand{txKind: "Call", kind: kOV, c: c, from: from, method: method, amount: amount, args: args, shape: "valid", urgent: true}
		g.usedS[from.Addr] = true
		return cd
	}
	switch stv {
	case 0: // pending
		if c.Abandon {
			// 30 days after its start time anybody may clean an abandoned voting up
			if g.nextTime() > c.StartTime+30*24*3600+60 && r.Intn(2) == 0 {
				if from := g.rich(Dna(60)); from != nil {
					g.usedS[from.Addr] = true
					g.usedC[c] = true
					acts = append(acts, &cand{txKind: "Terminate", kind: kOV, c: c, from: from, method: "terminate", amount: big.NewInt(0), shape: "valid", urgent: true})
				}
			}
			return
		}
		if g.nextTime() < c.StartTime+20 && r.Intn(5) != 0 {
			return
		}
		dep := new(big.Int).SetBytes(g.cval(c.Addr, "ownerDeposit"))
		need := new(big.Int).Sub(dep, g.balanceOf(c.Addr))
		if need.Sign() < 0 {
			need = big.NewInt(0)
		}
		need.Add(need, Dna(int64(r.Range(0, 40))))
		if r.Intn(8) == 0 {
			need = part(need, r) // too little
		}
		if cd := mk("startVoting", g.rich(new(big.Int).Add(need, Dna(60))), need); cd != nil {
			acts = append(acts, cd)
			g.usedC[c] = true
		}
	case 1: // started
		start := c15U64(g.cval(c.Addr, "startBlock"))
		dur := g.nextHeight() - start
		vd := c15U64(g.cval(c.Addr, "votingDuration"))
		if dur < vd {
			// secret phase: a few identities prove and lock their vote
			n := r.Range(1, 4)
			if c.Lazy {
				n = 1 - minInt(c.Proofs, 1)
			}
			for _, v := range g.W.Idents {
				if n == 0 {
					break
				}
				if _, done := c.Salts[v.Addr]; done || g.usedS[v.Addr] || r.Intn(3) == 0 {
					continue
				}
				if g.st().GetBalance(v.Addr).Cmp(Dna(100)) < 0 {
					continue
				}
				salt := r.Bytes(r.Range(1, 16))
				vote := byte(1)
				if r.Intn(3) == 0 {
					vote = byte(r.Range(0, 3))
				}
				h := crypto.Hash(append(common.ToBytes(vote), salt...))
				pay := new(big.Int).Set(new(big.Int).SetBytes(g.cval(c.Addr, "votingMinPayment")))
				if r.Intn(4) == 0 {
					pay.Add(pay, Dna(1))
				}
				if cd := mk("sendVoteProof", v, pay, h[:]); cd != nil {
					c.Salts[v.Addr], c.Votes[v.Addr] = salt, vote
					c.Proofs++
					va := v.Addr
					cd.onMut = func() { delete(c.Salts, va) }
					acts = append(acts, cd)
					n--
				}
			}
			return
		}
		// public phase: who still has a hash stored on chain?
		var pending []*Actor
		pvd := c15U64(g.cval(c.Addr, "publicVotingDuration"))
		for _, v := range g.W.Idents {
			if _, ok := c.Salts[v.Addr]; ok && dur <= vd+pvd && c.Tries[v.Addr] < 2 && g.st().GetContractValue(c.Addr, append([]byte("voteHashes"), v.Addr.Bytes()...)) != nil {
				pending = append(pending, v)
			}
		}
		voted := c15U64(g.cval(c.Addr, "votedCount"))
		if c.Lazy && voted == 0 {
			// quorum is out of reach: only prolonging helps (reveals are refused)
			g.usedC[c] = true
			if r.Intn(3) == 0 && len(pending) > 0 {
				v := pending[0]
				if cd := mk("sendVote", v, nil, []byte{c.Votes[v.Addr]}, c.Salts[v.Addr]); cd != nil {
					c.Tries[v.Addr]++
					acts = append(acts, cd)
				}
			} else if cd := mk("prolongVoting", g.rich(Dna(100)), nil); cd != nil {
				acts = append(acts, cd)
				c.Lazy = r.Intn(3) == 0 // usually people show up in the next round
				c.Proofs = 0
				c.Salts, c.Votes, c.Tries = map[common.Address][]byte{}, map[common.Address]byte{}, map[common.Address]int{}
			}
			return
		}
		if len(pending) >= 2 && r.Intn(3) != 0 {
			// designated class: every outstanding reveal and the finishVoting in one block. The
			// finisher is the revealer with the largest nonce: the pool orders by nonce, so the
			// finishVoting (nonce+1) comes after every reveal.
			var fin *Actor
			var finNonce uint32
			ok := true
			for _, v := range pending {
				if g.usedS[v.Addr] {
					ok = false
				}
				if n := g.W.NextNonce(v); fin == nil || n > finNonce {
					fin, finNonce = v, n
				}
			}
			if ok {
				multi = &C15Multi{Class: c15Versioned(kOV, g.up10()) + ":sendVote+finishVoting", C: c}
				for _, v := range pending {
					c.Tries[v.Addr]++
					cd := mk("sendVote", v, nil, []byte{c.Votes[v.Addr]}, c.Salts[v.Addr])
					cd.noMut = true
					multi.Acts = append(multi.Acts, g.build(cd))
				}
				fcd := &cand{txKind: "Call", kind: kOV, c: c, from: fin, method: "finishVoting", amount: big.NewInt(0), shape: "valid", urgent: true, noMut: true}
				fa := g.build(fcd)
				// nonce right after the finisher's own reveal
				fa.Tx = SignedTx(fin, fa.Tx.Type, fa.Tx.To, fa.Tx.Amount, fa.Tx.MaxFee, nil, finNonce+1, fa.Tx.Epoch, fa.Tx.Payload)
				multi.Acts = append(multi.Acts, fa)
				g.usedC[c] = true
				return nil, multi
			}
		}
		if len(pending) > 0 {
			n := r.Range(1, 3)
			for _, v := range pending {
				if n == 0 {
					break
				}
				salt, vote := c.Salts[v.Addr], c.Votes[v.Addr]
				if r.Intn(10) == 0 {
					salt = r.Bytes(4) // wrong salt: "wrong vote hash"
				}
				if cd := mk("sendVote", v, nil, []byte{vote}, salt); cd != nil {
					c.Tries[v.Addr]++
					acts = append(acts, cd)
					n--
				}
			}
			return
		}
		// nothing left to reveal: finish or prolong. When hashes stay unrevealed for good, finishing
		// only works after the public phase: do not hammer the contract meanwhile
		c.FinTries++
		if c.FinTries > 3 && dur < vd+pvd && c.FinTries%12 != 0 {
			return
		}
		g.usedC[c] = true
		if voted > 0 && r.Intn(5) != 0 {
			if cd := mk("finishVoting", g.rich(Dna(100)), nil); cd != nil {
				acts = append(acts, cd)
			}
		} else {
			if cd := mk("prolongVoting", g.rich(Dna(100)), nil); cd != nil {
				acts = append(acts, cd)
				// a prolonged voting starts a new secret phase: everybody may prove again
				c.Salts, c.Votes, c.Tries = map[common.Address][]byte{}, map[common.Address]byte{}, map[common.Address]int{}
			}
		}
	}
	return
}

// ------------------------------------------------------------------ mutation

var c15ForeignMethods = []string{"transfer", "add", "send", "push", "startVoting", "sendVoteProof", "sendVote", "finishVoting", "prolongVoting", "addStake",
	"checkOracleVoting", "deposit", "refund", "deploy", "terminate", "allocate", "__deploy", "_sum", "inc", "invoke", "test", "transferTo", "getBalance"}

func (g *C15Gen) mutate(cd *cand) {
	r := g.R
	args := append([][]byte{}, cd.args...)
	pickArg := func() int {
		if len(args) == 0 {
			return -1
		}
		return r.Intn(len(args))
	}
	switch r.Pick(10, 6, 8, 12, 6, 8, 8, 4, 10, 8, 6, 14, 4, 4) {
	case 0:
		if len(args) > 0 {
			args = args[:len(args)-1]
		}
		cd.shape = "mut:args-drop-last"
	case 1:
		args = nil
		cd.shape = "mut:args-drop-all"
	case 2:
		args = append(args, r.Bytes(r.Intn(40)))
		cd.shape = "mut:args-extra"
	case 3:
		if i := pickArg(); i >= 0 {
			args[i] = r.Bytes(r.Intn(48))
		}
		cd.shape = "mut:arg-garbage"
	case 4:
		if i := pickArg(); i >= 0 {
			args[i] = nil
		}
		cd.shape = "mut:arg-nil"
	case 5:
		if i := pickArg(); i >= 0 {
			args[i] = append(append([]byte{}, args[i]...), r.Bytes(r.Range(1, 12))...)
		}
		cd.shape = "mut:arg-wide"
	case 6:
		if i := pickArg(); i >= 0 && len(args[i]) > 0 {
			args[i] = append([]byte{}, args[i][:r.Intn(len(args[i]))]...)
		}
		cd.shape = "mut:arg-narrow"
	case 7:
		if len(args) >= 2 {
			i, j := r.Intn(len(args)), r.Intn(len(args))
			args[i], args[j] = args[j], args[i]
		}
		cd.shape = "mut:args-swap"
	case 8:
		if cd.txKind == "Call" {
			switch r.Intn(4) {
			case 0:
				cd.method = ""
			case 1:
				cd.method = string(r.Bytes(r.Range(1, 40)))
			default:
				cd.method = c15ForeignMethods[r.Intn(len(c15ForeignMethods))]
			}
		}
		cd.shape = "mut:method"
	case 9:
		if o := g.other(cd.from); o != nil {
			cd.from = o
		}
		cd.shape = "mut:caller"
	case 10:
		if r.Bool() {
			cd.amount = Dna(int64(r.Range(1, 400)))
		} else {
			cd.amount = big.NewInt(int64(r.Intn(1000)))
		}
		cd.shape = "mut:amount"
	case 11:
		cd.gas = []string{"exact", "tiny", "low", "low"}[r.Intn(4)]
		cd.shape = "mut:gas-" + cd.gas
	case 12:
		if cd.txKind == "Deploy" && cd.code != nil {
			code := append([]byte{}, cd.code...)
			switch r.Intn(3) {
			case 0:
				code = code[:r.Intn(len(code))]
			case 1:
				code[r.Intn(len(code))] ^= byte(1 << uint(r.Intn(8)))
			case 2:
				code = r.Bytes(r.Range(1, 200))
			}
			cd.code = code
			cd.shape = "mut:code"
		} else if cd.txKind == "Deploy" {
			// embedded code hash together with WASM code: executes as WASM
			cd.code = c15WasmCode[kInc]
			cd.shape = "mut:embedded-hash-with-code"
		} else {
			cd.shape = "mut:none"
		}
	case 13:
		// another tx type against the same target
		if cd.txKind == "Call" {
			cd.txKind, cd.method = "Terminate", "terminate"
		} else if cd.txKind == "Terminate" {
			cd.txKind, cd.method = "Call", "terminate"
		}
		cd.shape = "mut:txtype"
	}
	cd.args = args
}

// build turns a candidate into a signed transaction.
func (g *C15Gen) build(cd *cand) *C15Action {
	r := g.R
	wasmTx := c15IsWasmKind(cd.kind) || cd.code != nil
	gas := cd.gas
	if gas == "" {
		gas = "ample"
		if !cd.noMut && r.Intn(25) == 0 {
			gas = "max"
		}
	}
	var tips *big.Int
	if !cd.noMut && r.Intn(12) == 0 {
		tips = big.NewInt(int64(r.Intn(1000000)))
		if r.Intn(3) == 0 {
			tips = Dna(int64(r.Range(1, 5)))
		}
	}
	a := &C15Action{From: cd.from, C: cd.c, TxKind: cd.txKind, Shape: cd.shape, Args: cd.args, GasClass: gas, Urgent: cd.urgent}
	a.Kind = c15Versioned(cd.kind, g.up10())
	switch cd.txKind {
	case "Deploy":
		hash := c15CodeHash[cd.kind] // zero hash for WASM kinds
		att := attachments.CreateDeployContractAttachment(hash, cd.code, cd.nonce, cd.args...)
		pl, _ := att.ToBytes()
		a.Tx = g.sign(cd.from, types.DeployContractTx, nil, cd.amount, pl, gas, wasmTx, tips)
		a.Method = "deploy"
		if cd.code != nil {
			cd.c.Addr = wasm.ComputeContractAddrWithUnpackedArgs(cd.code, cd.args, cd.nonce)
		} else {
			cd.c.Addr = ContractAddr(cd.from.Addr, a.Tx)
		}
	case "Call":
		if cd.kind == kDeployer {
			// EMPTY byte strings are not passed through the deployer in the generated traffic: the Rust runtime hands an
			// empty slice to the Go host callbacks as (ptr = 0x1, len = 0) in a pointer-typed parameter, and the Go runtime
			// kills the process ("invalid pointer found on stack") when the goroutine's stack has to grow while such a
			// callback frame is live. That is a finding of its own (TestVerifC15EmptySliceCallback reproduces it in a
			// child process); here it would only end the shard at a point that depends on the stack's history.
			args := append([][]byte{}, cd.args...)
			for i := range args {
				if len(args[i]) == 0 {
					args[i] = []byte{0}
				}
			}
			cd.args, a.Args = args, args
		}
		att := attachments.CreateCallContractAttachment(cd.method, cd.args...)
		pl, _ := att.ToBytes()
		to := cd.c.Addr
		a.Tx = g.sign(cd.from, types.CallContractTx, &to, cd.amount, pl, gas, wasmTx, tips)
		a.Method = c15MethodClass(cd.method)
	case "Terminate":
		att := attachments.CreateTerminateContractAttachment(cd.args...)
		pl, _ := att.ToBytes()
		to := cd.c.Addr
		a.Tx = g.sign(cd.from, types.TerminateContractTx, &to, cd.amount, pl, gas, wasmTx, tips)
		a.Method = "terminate"
	}
	return a
}

// ------------------------------------------------------------------ batches

// NextBatch returns the contract transactions of the next block: at most one per sender and
// (apart from the voting proofs/reveals) one per contract instance, plus possibly one
// designated several-transactions-in-one-block class.
func (g *C15Gen) NextBatch() (acts []*C15Action, multis []*C15Multi, plain []*types.Transaction) {
	g.Step++
	r := g.R
	g.usedC, g.usedS, g.plain = map[*C15Contract]bool{}, map[common.Address]bool{}, nil
	defer func() { plain = g.plain }()
	// retire instances that never made it or were terminated
	for _, l := range [][]*C15Contract{g.Contracts, g.Deployers} {
		for _, c := range l {
			if !c.Dead && g.st().GetCodeHash(c.Addr) == nil && (c.Deployed || g.Step-c.Born > 3) {
				c.Dead = true
			}
			if !c.Dead && !c.Deployed && g.st().GetCodeHash(c.Addr) != nil {
				c.Deployed = true
			}
		}
	}
	finish := func(cd *cand, submitPct int) {
		if cd == nil || cd.from == nil {
			return
		}
		if !cd.noMut && !cd.urgent && r.Intn(100) < g.HostilePct || cd.urgent && !cd.noMut && r.Intn(100) < 8 {
			g.mutate(cd)
			if cd.onMut != nil {
				cd.onMut()
			}
		}
		if g.usedS[cd.from.Addr] && !cd.urgent {
			return
		}
		g.usedS[cd.from.Addr] = true
		a := g.build(cd)
		a.Submit = r.Intn(100) < submitPct
		if cd.shape != "valid" {
			a.Submit = r.Intn(100) < submitPct/2
		}
		acts = append(acts, a)
	}
	// 1. votings
	for _, c := range g.Contracts {
		if c.Kind != kOV || !g.alive(c) {
			continue
		}
		cds, m := g.ovDuties(c)
		for _, cd := range cds {
			finish(cd, 100)
		}
		if m != nil {
			multis = append(multis, m)
		}
	}
	// 2. designated class: deposits and the refund that pays them in one block
	for _, c := range g.live(kROL) {
		if g.usedC[c] || c.MultiTries >= 2 || c15B0(g.cval(c.Addr, "state")) != 4 || g.nextTime() > c.Deadline || r.Intn(3) != 0 {
			continue
		}
		if g.nextHeight() < c15U64(g.cval(c.Addr, "refundBlock")) {
			continue
		}
		m := &C15Multi{Class: c15Versioned(kROL, g.up10()) + ":deposit+refund", C: c}
		minDep := new(big.Int).Mul(g.fpg(), big.NewInt(10000))
		var last *Actor
		var lastNonce uint32
		for i := 0; i < 3; i++ {
			dep := new(big.Int).Add(minDep, Dna(int64(r.Range(0, 600))))
			from := g.rich(new(big.Int).Add(dep, Dna(100)))
			if from == nil {
				continue
			}
			g.usedS[from.Addr] = true
			cd := &cand{txKind: "Call", kind: kROL, c: c, from: from, method: "deposit", amount: dep, shape: "valid", noMut: true}
			m.Acts = append(m.Acts, g.build(cd))
			if n := g.W.NextNonce(from); last == nil || n > lastNonce {
				last, lastNonce = from, n
			}
		}
		if len(m.Acts) >= 2 {
			c.MultiTries++
			cd := &cand{txKind: "Call", kind: kROL, c: c, from: last, method: "refund", amount: big.NewInt(0), shape: "valid", noMut: true}
			fa := g.build(cd)
			fa.Tx = SignedTx(last, fa.Tx.Type, fa.Tx.To, fa.Tx.Amount, fa.Tx.MaxFee, nil, lastNonce+1, fa.Tx.Epoch, fa.Tx.Payload)
			m.Acts = append(m.Acts, fa)
			g.usedC[c] = true
			multis = append(multis, m)
		}
	}
	// 3. deployments: every enabled type early, then keep a few instances of each alive
	n := r.Range(2, 4)
	for i := 0; i < n; i++ {
		var kind string
		fewest := 1 << 30
		for _, k := range g.Kinds {
			cnt := 0
			for _, c := range g.Contracts {
				if c.Kind == k && !c.Dead {
					cnt++
				}
			}
			if cnt < fewest {
				fewest, kind = cnt, k
			}
		}
		limit := 2
		if fewest < limit && (fewest == 0 || r.Intn(3) == 0) || r.Intn(14) == 0 {
			if r.Intn(5) == 0 {
				kind = g.Kinds[r.Intn(len(g.Kinds))]
			}
			if cd := g.newDeploy(kind); cd != nil && !g.usedS[cd.from.Addr] {
				before := len(acts)
				finish(cd, 100)
				if len(acts) > before {
					a := acts[len(acts)-1]
					if a.Submit && a.TxKind == "Deploy" {
						g.Contracts = append(g.Contracts, cd.c)
					}
				}
				continue
			}
		}
		// 4. an interaction with a live instance
		var live []*C15Contract
		for _, c := range g.Contracts {
			if !g.usedC[c] && g.alive(c) {
				live = append(live, c)
			}
		}
		if len(live) == 0 {
			continue
		}
		c := live[r.Intn(len(live))]
		if c.Kind != kMultisig && r.Intn(4) == 0 {
			// multi-step protocols need more turns than one-shot contracts
			for _, m := range live {
				if m.Kind == kMultisig {
					c = m
					break
				}
			}
		}
		cds := g.candidates(c)
		if len(cds) == 0 {
			continue
		}
		g.usedC[c] = true
		finish(cds[r.Intn(len(cds))], 85)
	}
	// 5. sub-deployments: in two of three steps a deployer contract gets a turn (or one is deployed: two are kept
	// alive), signed by actors the rest of the batch did not use
	if g.RD != nil && g.hasKind(kInc) && g.RD.Intn(3) != 0 {
		saved := g.R
		g.R, r = g.RD, g.RD
		var live []*C15Contract
		coming := 0
		for _, c := range g.Deployers {
			if g.alive(c) {
				live = append(live, c)
			} else if !c.Dead {
				coming++
			}
		}
		if len(live)+coming < 2 && (len(live) == 0 || r.Intn(3) == 0) {
			if cd := g.newDeploy(kDeployer); cd != nil && !g.usedS[cd.from.Addr] {
				before := len(acts)
				finish(cd, 100)
				if len(acts) > before && acts[len(acts)-1].Submit && acts[len(acts)-1].TxKind == "Deploy" {
					g.Deployers = append(g.Deployers, cd.c)
				}
			}
		} else if len(live) > 0 {
			c := live[r.Intn(len(live))]
			if cds := g.candidates(c); len(cds) > 0 {
				finish(cds[r.Intn(len(cds))], 85)
			}
		}
		g.R, r = saved, saved
	}
	return
}

// JumpClock moves the virtual clock forward by days (legal: a block may be arbitrarily later
// than its parent) so that time locks open and abandoned pending votings become terminable.
func (g *C15Gen) JumpClock(d time.Duration) {
	setClock(g.W.Now().Add(d))
	g.jumped = true
}

// ------------------------------------------------------------------ same-block sequences

// The sequence oracle (c15_seq_test.go) puts the contract transactions of a batch into ONE block
// of the observer. The generator adds the two controlled ends of such a block: transactions built
// to FAIL and transactions built to SUCCEED that any key holder can sign, so that the harness is
// free to choose signers whose nonces put them first / last in the block.

// SeqSigners returns funded actors the current batch did not use (and that have nothing
// waiting in a pool), sorted by their next nonce.
func (g *C15Gen) SeqSigners() []*Actor {
	need := new(big.Int).Add(g.minStake(), Dna(3000))
	var l []*Actor
	for _, a := range g.Funded {
		if g.usedS[a.Addr] || g.st().GetBalance(a.Addr).Cmp(need) < 0 || g.W.NextNonce(a) != g.W.StateNonce(a) {
			continue
		}
		l = append(l, a)
	}
	sort.SliceStable(l, func(i, j int) bool { return g.W.StateNonce(l[i]) < g.W.StateNonce(l[j]) })
	return l
}

var c15SeqFailKinds = []string{"deploy-noargs", "deploy-short", "deploy-garbage", "deploy-nogas", "call-unknown-method", "foreign-caller", "foreign-terminate",
	"wasm-call-args", "wasm-deploy-broken", "call-nogas", "deposit-low"}

// SeqFail builds a contract tx signed by `from` that is expected to fail, of the j-th class.
// Nothing here needs a particular signer. Returns nil when the class has no target right now.
func (g *C15Gen) SeqFail(j int, from *Actor) *C15Action {
	r := g.R
	class := c15SeqFailKinds[j%len(c15SeqFailKinds)]
	emb := c15EmbeddedKinds[(j/len(c15SeqFailKinds))%len(c15EmbeddedKinds)]
	deploy := func(kind string) *cand {
		cd := g.newDeploy(kind)
		if cd == nil {
			return nil
		}
		cd.from, cd.c.Owner, cd.noMut = from, from, true
		return cd
	}
	liveOf := func(pred func(c *C15Contract) bool) *C15Contract {
		var l []*C15Contract
		for _, c := range g.Contracts {
			if g.alive(c) && pred(c) {
				l = append(l, c)
			}
		}
		if len(l) == 0 {
			return nil
		}
		return l[r.Intn(len(l))]
	}
	call := func(txKind string, c *C15Contract, method string, amount *big.Int, args ...[]byte) *cand {
		if amount == nil {
			amount = big.NewInt(0)
		}
		return &cand{txKind: txKind, kind: c.Kind, c: c, from: from, method: method, amount: amount, args: args, noMut: true}
	}
	var cd *cand
	switch class {
	case "deploy-noargs": // contract.Deploy returns an error before it wrote anything
		if cd = deploy(emb); cd != nil {
			cd.args, cd.shape = nil, "mut:args-drop-all"
		}
	case "deploy-short": // ... after it wrote the leading parameters
		if cd = deploy(emb); cd != nil {
			if len(cd.args) > 0 {
				cd.args = cd.args[:len(cd.args)-1]
			}
			if emb == kOV {
				cd.args = cd.args[:1] // only the first two parameters of a voting are mandatory
			}
			cd.shape = "mut:args-drop-last"
		}
	case "deploy-garbage":
		if cd = deploy(emb); cd != nil && len(cd.args) > 0 {
			i := r.Intn(len(cd.args))
			if r.Bool() {
				i = 0
			}
			cd.args = append([][]byte{}, cd.args...)
			cd.args[i] = r.Bytes(r.Range(1, 5) * 3)
			cd.shape = "mut:arg-garbage"
		}
	case "deploy-nogas": // the gas runs out inside Deploy (a panic, not an error value)
		if cd = deploy(emb); cd != nil {
			cd.gas = []string{"exact", "tiny", "low"}[r.Intn(3)]
			cd.shape = "mut:gas-" + cd.gas
		}
	case "call-unknown-method":
		if c := liveOf(func(c *C15Contract) bool { return true }); c != nil {
			m := c15ForeignMethods[r.Intn(len(c15ForeignMethods))]
			for _, own := range c15Methods[c.Kind] {
				if own == m {
					m = "noSuchMethod"
				}
			}
			cd = call("Call", c, m, nil, r.Bytes(20), big.NewInt(1).Bytes())
			cd.shape = "mut:method"
		}
	case "foreign-caller": // a method only the owner / a voter may call
		if c := liveOf(func(c *C15Contract) bool { return (c.Kind == kTimeLock || c.Kind == kMultisig) && c.Owner != from }); c != nil {
			if c.Kind == kTimeLock {
				cd = call("Call", c, "transfer", nil, g.destFor(c.Addr, from).Bytes(), big.NewInt(1).Bytes())
			} else if c15B0(g.cval(c.Addr, "state")) == 1 {
				cd = call("Call", c, "add", nil, from.Addr.Bytes())
			} else {
				cd = call("Call", c, "send", nil, g.destFor(c.Addr, from).Bytes(), big.NewInt(1).Bytes())
			}
			cd.shape = "mut:caller"
		}
	case "foreign-terminate":
		if c := liveOf(func(c *C15Contract) bool { return !c15IsWasmKind(c.Kind) && c.Kind != kOV && c.Owner != from }); c != nil {
			cd = call("Terminate", c, "terminate", nil, g.destFor(c.Addr, from).Bytes())
			cd.shape = "mut:caller"
		}
	case "wasm-call-args": // a WASM export called with an argument vector it cannot decode
		if c := liveOf(func(c *C15Contract) bool {
			return c.Kind == kInc || c.Kind == kErc20 || c.Kind == kSum || c.Kind == kSpender
		}); c != nil {
			m := c15Methods[c.Kind][0]
			switch r.Intn(3) {
			case 0:
				cd = call("Call", c, m, nil)
			case 1:
				cd = call("Call", c, m, nil, r.Bytes(r.Range(1, 7)))
			default:
				cd = call("Call", c, m, Dna(int64(r.Range(1, 3))), r.Bytes(3), r.Bytes(40), r.Bytes(1))
			}
			cd.shape = "mut:args-garbage"
		}
	case "wasm-deploy-broken":
		if len(g.live(kInc))+len(g.live(kErc20))+len(g.live(kSpender)) > 0 || g.hasKind(kInc) {
			if cd = deploy(kInc); cd != nil {
				code := append([]byte{}, cd.code...)
				if r.Bool() {
					code = code[:r.Range(8, len(code)-1)]
				} else {
					code = r.Bytes(r.Range(1, 200))
				}
				cd.code, cd.shape = code, "mut:code"
			}
		}
	case "call-nogas": // the gas runs out inside a call that would succeed (any-caller methods)
		if sc := g.seqAnyoneCall(from); sc != nil {
			cd = sc
			cd.gas = []string{"exact", "tiny", "low"}[r.Intn(3)]
			cd.shape = "mut:gas-" + cd.gas
		}
	case "deposit-low": // pay amount below what the method demands
		if c := liveOf(func(c *C15Contract) bool { return c.Kind == kROL }); c != nil {
			cd = call("Call", c, "deposit", big.NewInt(int64(r.Range(0, 1000))))
			cd.shape = "mut:amount"
		}
	}
	if cd == nil {
		return nil
	}
	return g.build(cd)
}

func (g *C15Gen) hasKind(kind string) bool {
	for _, k := range g.Kinds {
		if k == kind {
			return true
		}
	}
	return false
}

// seqAnyoneCall proposes a call that succeeds whoever signs it (given the on-chain state).
func (g *C15Gen) seqAnyoneCall(from *Actor) *cand {
	r := g.R
	var l []*cand
	mk := func(c *C15Contract, method string, amount *big.Int, args ...[]byte) {
		if amount == nil {
			amount = big.NewInt(0)
		}
		l = append(l, &cand{txKind: "Call", kind: c.Kind, c: c, from: from, method: method, amount: amount, args: args, shape: "valid", noMut: true})
	}
	now := g.nextTime()
	for _, c := range g.Contracts {
		if !g.alive(c) {
			continue
		}
		switch c.Kind {
		case kInc:
			mk(c, "inc", nil, u64b(uint64(r.Intn(1000))))
		case kErc20:
			mk(c, "approve", nil, g.Funded[r.Intn(len(g.Funded))].Addr.Bytes(), big.NewInt(int64(r.Range(1, 50))).Bytes())
		case kROL:
			if now+60 < c.Deadline && c15B0(g.cval(c.Addr, "state")) == 1 && c.OV != c.Addr {
				mk(c, "deposit", new(big.Int).Add(new(big.Int).Mul(g.fpg(), big.NewInt(10000)), Dna(int64(r.Range(1, 20)))))
			}
		case kOV:
			if c15B0(g.cval(c.Addr, "state")) == 1 {
				mk(c, "addStake", Dna(int64(r.Range(1, 4))))
			}
		case kOL:
			mk(c, "checkOracleVoting", nil) // succeeds once the voting it is bound to is finished
		case kSpender:
			if bal := g.balanceOf(c.Addr); bal.Sign() > 0 {
				mk(c, "send", nil, g.destFor(c.Addr, from).Bytes(), part(bal, r).Bytes())
			}
		}
	}
	if len(l) == 0 {
		return nil
	}
	return l[r.Intn(len(l))]
}

// SeqOk builds a contract tx signed by `from` that is expected to succeed: deployments of the
// parameter-free kinds (embedded and, where enabled, WASM) and any-caller calls.
func (g *C15Gen) SeqOk(j int, from *Actor) *C15Action {
	var cd *cand
	deploy := func(kind string) *cand {
		d := g.newDeploy(kind)
		if d != nil {
			d.from, d.c.Owner, d.noMut = from, from, true
		}
		return d
	}
	switch j % 5 {
	case 0:
		cd = deploy(kTimeLock)
	case 1:
		cd = deploy(kMultisig)
	case 2:
		if g.hasKind(kInc) {
			cd = deploy([]string{kInc, kSpender, kErc20}[(j/5)%3])
		}
	case 3, 4:
		cd = g.seqAnyoneCall(from)
	}
	if cd == nil {
		cd = deploy([]string{kTimeLock, kMultisig}[j%2])
	}
	if cd == nil {
		return nil
	}
	return g.build(cd)
}

// Resign gives the tx of an action another nonce (same everything else).
func (a *C15Action) Resign(nonce uint32) *C15Action {
	if a.Tx.AccountNonce == nonce {
		return a
	}
	b := *a
	tx := a.Tx
	b.Tx = SignedTx(a.From, tx.Type, tx.To, tx.Amount, tx.MaxFee, tx.Tips, nonce, tx.Epoch, tx.Payload)
	return &b
}

func bigOrZero(v *big.Int) *big.Int {
	if v == nil {
		return new(big.Int)
	}
	return v
}
