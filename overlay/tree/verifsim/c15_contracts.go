package verifsim

// C15 — contract execution is atomic, pays for itself and cannot overspend.
// This file holds the workload side of the monitor: bookkeeping of contract instances,
// generators of deploy/call/terminate transactions for every embedded contract type and the
// bundled WASM contracts (valid shapes and mutated ones), and observation helpers that read
// twin post-states. The oracles live in c15_test.go.

import (
	"bytes"
	"fmt"
	"math/big"
	"sort"
	"time"

	"github.com/golang/protobuf/proto"
	"github.com/idena-network/idena-go/blockchain/attachments"
	"github.com/idena-network/idena-go/blockchain/fee"
	"github.com/idena-network/idena-go/blockchain/types"
	"github.com/idena-network/idena-go/blockchain/validation"
	"github.com/idena-network/idena-go/common"
	"github.com/idena-network/idena-go/core/appstate"
	"github.com/idena-network/idena-go/core/state"
	"github.com/idena-network/idena-go/crypto"
	"github.com/idena-network/idena-go/verifutil"
	"github.com/idena-network/idena-go/vm/embedded"
	"github.com/idena-network/idena-go/vm/wasm"
	"github.com/idena-network/idena-go/vm/wasm/testdata"
	wasmmodels "github.com/idena-network/idena-wasm-binding/lib/protobuf"
)

// ------------------------------------------------------------------ kinds

const (
	kTimeLock = "TimeLock"
	kMultisig = "Multisig"
	kOV       = "OracleVoting"
	kOL       = "OracleLock"
	kROL      = "RefundableOracleLock"
	kErc20    = "wasm:erc20"
	kInc      = "wasm:inc_func"
	kSum      = "wasm:sum_func"
	kSft      = "wasm:shared-fungible-token-wallet"
	kCases    = "wasm:test-cases"
)

var c15EmbeddedKinds = []string{kTimeLock, kMultisig, kOV, kOL, kROL}
var c15WasmKinds = []string{kErc20, kInc, kSum, kSft, kCases}

var c15CodeHash = map[string]common.Hash{
	kTimeLock: embedded.TimeLockContract, kMultisig: embedded.MultisigContract, kOV: embedded.OracleVotingContract,
	kOL: embedded.OracleLockContract, kROL: embedded.RefundableOracleLockContract,
}

// methods a contract type understands (anything else is "unknown method")
var c15Methods = map[string][]string{
	kTimeLock: {"transfer"},
	kMultisig: {"add", "send", "push"},
	kOV:       {"startVoting", "sendVoteProof", "sendVote", "finishVoting", "prolongVoting", "addStake"},
	kOL:       {"push", "checkOracleVoting"},
	kROL:      {"deposit", "push", "refund"},
	kErc20:    {"transfer", "approve", "transferFrom", "getBalance", "allowance", "transfer_from", "get_balance"},
	kInc:      {"inc"},
	kSum:      {"invoke", "_sum"},
	kSft:      {"transferTo", "getBalance", "receive", "_addBalance", "_subBalance", "_deploy_wallet_callback", "_send_tokens_callback"},
	kCases:    {"test", "_deployCallback"},
}

var c15WasmCode = map[string][]byte{}
var c15WasmByHash = map[common.Hash]string{}

func init() {
	load := func(kind string, f func() ([]byte, error)) {
		code, err := f()
		if err != nil {
			panic(err)
		}
		c15WasmCode[kind] = code
		c15WasmByHash[crypto.Hash(code)] = kind
	}
	load(kErc20, testdata.Erc20)
	load(kInc, testdata.IncFunc)
	load(kSum, testdata.SumFunc)
	load(kSft, testdata.SharedFungibleToken)
	load(kCases, testdata.TestCases)
}

func c15IsWasmKind(kind string) bool { return len(kind) > 5 && kind[:5] == "wasm:" }

// c15KindOfHash names the contract type behind a code hash.
func c15KindOfHash(h *common.Hash) string {
	if h == nil {
		return "none"
	}
	for k, v := range c15CodeHash {
		if v == *h {
			return k
		}
	}
	if k, ok := c15WasmByHash[*h]; ok {
		return k
	}
	return "wasm:other"
}

// c15VersionedKind distinguishes the two implementations selected by the consensus version.
func (g *C15Gen) versioned(kind string) string {
	if kind == kOV || kind == kROL {
		if g.W.Cons.EnableUpgrade10 {
			return kind + "2"
		}
		return kind + "1"
	}
	return kind
}

// ------------------------------------------------------------------ instances

type C15Contract struct {
	Kind     string
	Addr     common.Address
	Owner    *Actor
	DeployTx common.Hash
	Born     int // step
	// parameters the generator needs to build valid calls
	Timestamp    uint64                    // TimeLock
	MaxVotes     byte                      // Multisig
	MinVotes     byte                      // Multisig
	Voters       []*Actor                  // Multisig voters added so far / OV voters that sent a proof
	Salts        map[common.Address][]byte // OV: voter -> salt
	Votes        map[common.Address]byte   // OV: voter -> vote
	VotingDur    uint64                    // OV
	Committee    uint64                    // OV
	MinPayment   *big.Int                  // OV
	StartTime    uint64                    // OV
	OV           common.Address            // OL / ROL: bound voting
	Value        byte                      // OL / ROL
	Deadline     uint64                    // ROL
	Delay        uint64                    // ROL
	Depositors   []*Actor
	Supply       *big.Int // erc20: Σ balances recorded at deployment
	Root         bool     // sft
	Inc          common.Address // sum_func: bound inc contract
	BlockedUntil int            // real-chain discipline: no second tx of this instance in one block
}

// C15Action is one generated contract transaction with what the harness knows about it.
type C15Action struct {
	Tx       *types.Transaction
	From     *Actor
	C        *C15Contract // target or (deploy) the instance being created
	Kind     string       // contract type (versioned) — "none" if the target is not a contract
	TxKind   string       // Deploy / Call / Terminate
	Method   string       // class of the method name (known names verbatim, anything else "unknown-method")
	Shape    string       // "valid" or "mut:<what>"
	Args     [][]byte
	RawMeth  string
	GasClass string
	Submit   bool // also goes to the real chain
}

type C15Gen struct {
	W         *World
	R         *verifutil.Rng
	Twin      *Replica
	Contracts []*C15Contract
	Step      int
	Funded    []*Actor // actors with plenty of coins (identities and accounts)
	WasmOn    bool
	nonceSeq  int
}

func NewC15Gen(w *World, twin *Replica, r *verifutil.Rng) *C15Gen {
	return &C15Gen{W: w, R: r, Twin: twin, WasmOn: w.Cons.EnableUpgrade11}
}

// Fund lets god send coins to every identity and account so that deposits, stakes and large
// gas budgets are affordable; returns after the transfers are in the chain.
func (g *C15Gen) Fund(per *big.Int) error {
	w := g.W
	var targets []*Actor
	targets = append(targets, w.Idents...)
	targets = append(targets, w.Accounts...)
	targets = append(targets, w.Nodes...)
	g.Funded = append(g.Funded, w.Idents...)
	g.Funded = append(g.Funded, w.Accounts...)
	for len(targets) > 0 {
		n := minInt(len(targets), 24)
		for _, a := range targets[:n] {
			to := a.Addr
			if err := w.Submit(w.Tx(w.God, types.SendTx, &to, per, nil)); err != nil {
				return fmt.Errorf("funding tx refused: %v", err)
			}
		}
		targets = targets[n:]
		w.Tick(20 * time.Second)
		res := w.NextBlock(0)
		for n, e := range res.Errs {
			return fmt.Errorf("funding block refused by %s: %v", n, e)
		}
	}
	return nil
}

// ------------------------------------------------------------------ observation helpers

// C15StateKV returns the full contents of the WORKING state tree of a (check) state, i.e.
// including everything the block applied (validateBlock ends with Precommit).
func C15StateKV(as *appstate.AppState) map[string][]byte {
	m := map[string][]byte{}
	as.State.VerifIterateAll(func(k, v []byte) bool {
		m[string(k)] = append([]byte{}, v...)
		return false
	})
	return m
}

// c15DiffKeys lists the keys whose value differs between two state contents (sorted).
func c15DiffKeys(a, b map[string][]byte) []string {
	var keys []string
	for k, va := range a {
		if vb, ok := b[k]; !ok || !bytes.Equal(va, vb) {
			keys = append(keys, k)
		}
	}
	for k := range b {
		if _, ok := a[k]; !ok {
			keys = append(keys, k)
		}
	}
	sort.Strings(keys)
	return keys
}

// c15GlobalSansFee re-encodes a stored Global object with the fee-rate field blanked.
func c15GlobalSansFee(v []byte) []byte {
	if v == nil {
		return nil
	}
	var g state.Global
	if err := g.FromBytes(v); err != nil {
		return v
	}
	g.FeePerGas = nil
	out, _ := g.ToBytes()
	return out
}

func c15DescribeKey(k string) string {
	b := []byte(k)
	cls := KeyClass(b)
	switch cls {
	case "account", "identity":
		if len(b) >= 5 {
			return fmt.Sprintf("%s(%x)", cls, b[1:5])
		}
	case "contractStore":
		if len(b) > 21 {
			return fmt.Sprintf("contractStore(%x:%q)", b[1:5], string(b[21:]))
		}
	}
	return cls
}

// c15TxFee is the size-based fee of a tx at the fee rate of the state the block is applied on.
func c15TxFee(pre *appstate.AppState, tx *types.Transaction) *big.Int {
	return fee.CalculateFee(pre.ValidatorsCache.NetworkSize(), pre.State.FeePerGas(), tx)
}

// c15ActionStats walks the WASM action result tree of a receipt.
type c15SubStats struct{ SubCalls, SubDeploys, SubCallsOK, SubDeploysOK, Depth int }

func c15WalkAction(data []byte) (st c15SubStats, ok bool) {
	if len(data) == 0 {
		return st, false
	}
	var ar wasmmodels.ActionResult
	if err := proto.Unmarshal(data, &ar); err != nil {
		return st, false
	}
	var walk func(a *wasmmodels.ActionResult, d int)
	walk = func(a *wasmmodels.ActionResult, d int) {
		if d > st.Depth {
			st.Depth = d
		}
		for _, s := range a.SubActionResults {
			if s == nil {
				continue
			}
			if s.InputAction != nil {
				switch s.InputAction.ActionType {
				case 1: // function call
					st.SubCalls++
					if s.Success {
						st.SubCallsOK++
					}
				case 3: // deploy
					st.SubDeploys++
					if s.Success {
						st.SubDeploysOK++
					}
				}
			}
			walk(s, d+1)
		}
	}
	walk(&ar, 0)
	return st, true
}

// ------------------------------------------------------------------ tx assembly

// gas budget classes: the MaxFee a tx declares decides how much gas it may burn
func (g *C15Gen) maxFeeFor(probe *types.Transaction, class string, wasmTx bool) *big.Int {
	v := g.W.View()
	fpg := v.AppState.State.FeePerGas()
	ns := v.AppState.ValidatorsCache.NetworkSize()
	txFee := fee.CalculateFee(ns, fpg, probe)
	minFpg := fee.GetFeePerGasForNetwork(ns)
	minFee := fee.CalculateFee(ns, minFpg, probe)
	base := new(big.Int).Set(txFee)
	if base.Cmp(minFee) < 0 {
		base.Set(minFee)
	}
	gas := int64(0)
	switch class {
	case "exact": // no gas at all
	case "tiny":
		gas = int64(g.R.Range(1, 60))
	case "low":
		if wasmTx {
			gas = int64(g.R.Range(500, 30000))
		} else {
			gas = int64(g.R.Range(60, 900))
		}
	case "ample":
		if wasmTx {
			gas = int64(g.R.Range(400000, 1500000))
		} else {
			gas = int64(g.R.Range(20000, 60000))
		}
	case "max": // right below the admission cap (MaxFee / minFeePerGas <= max block gas)
		capFee := new(big.Int).Mul(minFpg, big.NewInt(int64(types.MaxBlockSize(g.W.Cons.EnableUpgrade11))))
		return capFee
	}
	return base.Add(base, new(big.Int).Mul(fpg, big.NewInt(gas)))
}

func (g *C15Gen) gasClass(wasmTx bool) string {
	switch g.R.Pick(70, 6, 8, 10, 6) {
	case 0:
		return "ample"
	case 1:
		return "exact"
	case 2:
		return "tiny"
	case 3:
		return "low"
	}
	return "max"
}

func (g *C15Gen) signed(from *Actor, t types.TxType, to *common.Address, amount *big.Int, payload []byte, gasClass string, wasmTx bool, tips *big.Int) *types.Transaction {
	v := g.W.View()
	ep := v.AppState.State.Epoch()
	probe := &types.Transaction{AccountNonce: g.W.NextNonce(from), Epoch: ep, Type: t, To: to, Amount: amount, Payload: payload, MaxFee: Dna(1), Tips: tips}
	maxFee := g.maxFeeFor(probe, gasClass, wasmTx)
	return SignedTx(from, t, to, amount, maxFee, tips, probe.AccountNonce, ep, payload)
}

func c15Addr(r *verifutil.Rng) common.Address {
	var a common.Address
	copy(a[:], r.Bytes(20))
	return a
}

// Included reports whether pool admission is to be expected to succeed (sanity for callers)
func c15PoolCheck(r *Replica, tx *types.Transaction) error {
	as, err := r.AppState.Readonly(r.Head().Height())
	if err != nil {
		return err
	}
	return validation.ValidateTx(as, tx, fee.GetFeePerGasForNetwork(as.ValidatorsCache.NetworkSize()), validation.MempoolTx)
}

var _ = attachments.CreateCallContractAttachment
var _ = wasm.ComputeContractAddr
