package verifsim

import (
	"bytes"
	"fmt"
	"github.com/idena-network/idena-go/blockchain/attachments"
	"sort"
	"testing"
	"time"

	"github.com/idena-network/idena-go/blockchain/types"
	"github.com/idena-network/idena-go/blockchain/validation"
	"github.com/idena-network/idena-go/common"
	"github.com/idena-network/idena-go/consensus"
	"github.com/idena-network/idena-go/crypto"
	"github.com/idena-network/idena-go/secstore"
	"github.com/idena-network/idena-go/verifutil"
	dbm "github.com/tendermint/tm-db"
)

// C08: a fork is adopted only if valid and certified; adoption equals a clean sync.

type certShape int

const (
	certNil certShape = iota
	certEmpty
	certUnderQuorum
	certForged
	certWrongRound
	certValid
	certDuplicated // a quorum-sized list made of fewer distinct voters (the same valid signature repeated)
	certPostBlock  // votes of the committee drawn from the validator set AFTER the block (incl. somebody the block switches online)
)

var certShapeNames = []string{"nil", "empty", "under-quorum", "forged", "wrong-round", "valid", "duplicated-votes", "post-block-committee"}

// c08Aim != 0 directs the next fork experiment at a status-switch height: the fork's tip is the
// block at that height, which switches an identity online, and its certificate is signed by the
// committee of the validator set AFTER the block.
var c08Aim uint64

// c08Flood directs the next fork experiment at an own branch that carries more transactions of
// one sender than the pool queues per address.
var c08Flood bool

// shapeCert builds a certificate of the wanted shape for block b on builder's head state
// (= the validator view at b's parent). Returns nil,false if the shape cannot be formed.
func shapeCert(w *World, r *verifutil.Rng, builder *Replica, prev *types.Header, b *types.Block, shape certShape) (*types.BlockCert, bool) {
	vc := builder.AppState.ValidatorsCache
	full, quorum := w.MakeCert(builder, vc, prev, b, types.Final)
	switch shape {
	case certNil:
		return nil, true
	case certEmpty:
		return &types.BlockCert{}, true // what blockRange.FromBytes yields for an empty protobuf message
	case certValid:
		if !quorum {
			return nil, false
		}
		return full.Compress(), true
	case certUnderQuorum:
		final := true
		need := builder.Chain.GetCommitteeVotesThreshold(vc, final)
		committee := vc.GetOnlineValidators(prev.Seed(), b.Height(), types.Final, builder.Chain.GetCommitteeSize(vc, final))
		if committee == nil {
			return nil, false
		}
		need -= committee.VotesCountSubtrahend(w.Cons.AgreementThreshold)
		if need <= 1 || len(full.Votes) == 0 {
			return nil, false // a quorum of one cannot be undercut with a non-empty cert
		}
		c := &types.FullBlockCert{Votes: full.Votes[:need-1]}
		return c.Compress(), true
	case certDuplicated:
		final := true
		need := builder.Chain.GetCommitteeVotesThreshold(vc, final)
		committee := vc.GetOnlineValidators(prev.Seed(), b.Height(), types.Final, builder.Chain.GetCommitteeSize(vc, final))
		if committee == nil {
			return nil, false
		}
		need -= committee.VotesCountSubtrahend(w.Cons.AgreementThreshold)
		if need <= 1 || len(full.Votes) == 0 {
			return nil, false
		}
		c := &types.FullBlockCert{}
		distinct := r.Range(1, need-1)
		if distinct > len(full.Votes) {
			distinct = len(full.Votes)
		}
		for i := 0; len(c.Votes) < need+1; i++ {
			c.Votes = append(c.Votes, full.Votes[i%distinct])
		}
		return c.Compress(), true
	case certForged:
		// enough signatures, but from keys outside the committee
		c := &types.FullBlockCert{}
		for i := 0; i < len(full.Votes)+2; i++ {
			o := NewActor(w.Opt.Seed, "forger", i)
			c.Votes = append(c.Votes, SignVote(o, b.Height(), types.Final, prev.Hash(), b.Hash()))
		}
		return c.Compress(), true
	case certWrongRound:
		if len(full.Votes) == 0 {
			return nil, false
		}
		c := &types.FullBlockCert{}
		for _, v := range full.Votes {
			a := w.ByAddr[v.VoterAddr()]
			c.Votes = append(c.Votes, SignVote(a, b.Height()+1, types.Final, prev.Hash(), b.Hash()))
		}
		return c.Compress(), true
	}
	return nil, false
}

func chainArtifacts(w *World, r *Replica, from, to uint64, txs []*types.Transaction) []string {
	var out []string
	out = append(out, "head="+r.Head().Hash().Hex(), DigestState(r.AppState).String())
	var addrs []common.Address
	for _, a := range w.SortedActors() {
		addrs = append(addrs, a.Addr)
	}
	seed := r.Head().Seed()
	out = append(out, ValidatorsDump(r.AppState.ValidatorsCache, addrs, []CommitteeProbe{{seed, to + 1, 1, 3}, {seed, to + 1, types.Final, 5}})...)
	for h := from; h <= to+3; h++ {
		hd := r.Chain.GetBlockHeaderByHeight(h)
		if hd == nil {
			out = append(out, fmt.Sprintf("canonical[%d]=none", h))
		} else {
			out = append(out, fmt.Sprintf("canonical[%d]=%x", h, hd.Hash().Bytes()[:8]))
		}
		d := r.Chain.GetIdentityDiff(h)
		if d == nil || d.Empty() {
			out = append(out, fmt.Sprintf("identityDiff[%d]=empty", h))
		} else {
			b, _ := d.ToBytes()
			x := hash32(b)
			out = append(out, fmt.Sprintf("identityDiff[%d]=%x(%d entries)", h, x[:6], len(d.Values)))
		}
	}
	for _, tx := range txs {
		got, idx := r.Chain.GetTx(tx.Hash())
		s := fmt.Sprintf("tx[%x]=", tx.Hash().Bytes()[:6])
		if got == nil {
			s += "unknown"
		} else {
			s += fmt.Sprintf("in %x #%d", idx.BlockHash.Bytes()[:6], idx.Idx)
		}
		rc := r.Chain.GetReceipt(tx.Hash())
		s += fmt.Sprintf(" receipt=%v", rc != nil)
		out = append(out, s)
	}
	return out
}

func firstDiff(a, b []string) string {
	for i := range a {
		if i >= len(b) || a[i] != b[i] {
			o := "<missing>"
			if i < len(b) {
				o = b[i]
			}
			return fmt.Sprintf("adopting node: %q, clean-sync node: %q", a[i], o)
		}
	}
	if len(b) > len(a) {
		return "clean-sync node has more: " + b[len(a)]
	}
	return ""
}

func artifactClass(d string) string {
	for _, k := range []string{"head=", "state=", "canonical[", "identityDiff[", "tx[", "network=", "committee(", "onlineSet", "subIdentities"} {
		if len(d) > 16 && bytes.Contains([]byte(d[:60]), []byte(k)) {
			return k
		}
	}
	return "validator-view"
}

func TestVerifC08(t *testing.T) {
	if !verifutil.Enabled() {
		t.Skip("verif harness")
	}
	rep := verifutil.NewReport()
	defer rep.Write()
	nScen := verifutil.Scale(2, 6)
	steps := verifutil.Scale(220, 340)
	every := verifutil.Scale(4, 3)
	for sc := 0; sc < nScen; sc++ {
		seed := scenSeed(sc)
		o := optsFor(sc, seed)
		o.NIdent = 10 + sc%3*5
		w := NewWorld(o)
		if !startScenario(w, rep, false) {
			w.Cleanup()
			continue
		}
		s := NewScenario(w, verifutil.NewRng(seed, 8))
		s.Hostile, s.MaxTxs, s.EmptyPct = 10, 5, 25
		r := verifutil.NewRng(seed, 88)
		for i := 0; i < steps; i++ {
			rep.Progress("C08 scenario %d seed %d step %d", sc, seed, i)
			res := s.Step()
			if len(res.Errs) > 0 {
				rep.Note("scenario %d stopped at step %d: block refused (%v)", sc, i, res.Errs)
				break
			}
			// floods: four consecutive blocks with a dozen transfers of one sender each, then a fork
			// that abandons them
			if ph := i % 45; ph >= 30 && ph < 34 && len(w.Blocks) >= 12 {
				for k := 0; k < 12; k++ {
					to := w.anyAddr(r)
					s.SubmitGen(&Gen{Tx: w.Tx(w.God, types.SendTx, &to, Dna(1), nil), Kind: "flood:Send"})
				}
			}
			if i%45 == 34 && len(w.Blocks) >= 12 {
				c08Flood = true
				forkExperiment(w, rep, r, sc, i)
				c08Flood = false
			}
			if len(w.Blocks) >= 12 {
				// directed: a status-switch height lies 1..4 blocks ahead
				h := w.Replicas[1].Head().Height()
				if rng := w.Cons.StatusSwitchRange; rng > 0 {
					if S := (h/rng + 1) * rng; S-h <= 4 && S-h >= 2 {
						c08Aim = S
						forkExperiment(w, rep, r, sc, i)
						c08Aim = 0
					}
				}
			}
			if i%every != every-1 || len(w.Blocks) < 12 {
				continue
			}
			forkExperiment(w, rep, r, sc, i)
		}
		flushCounters(rep, w, s)
		w.Cleanup()
	}
}

func forkExperiment(w *World, rep *verifutil.Report, r *verifutil.Rng, sc, step int) {
	src := w.Replicas[1]
	head := src.Head().Height()
	// own branch length d (blocks A has above the ancestor) and fork length m
	maxD := minInt(40, len(w.Blocks)-2)
	d := r.Range(1, minInt(maxD, []int{2, 4, 10, 40}[r.Intn(4)]))
	ancestor := head - uint64(d)
	lenClass := r.Pick(2, 3, 6) // 0 shorter, 1 equal, 2 longer
	m := d
	switch lenClass {
	case 0:
		m = r.Range(1, maxInt(1, d-1))
		if m >= d {
			lenClass = 1
		}
	case 2:
		m = d + r.Range(1, 4)
	}
	if c08Flood {
		d = r.Range(4, minInt(6, maxD))
		ancestor = head - uint64(d)
		lenClass = 2
		m = d + r.Range(1, 3)
	}
	if c08Aim != 0 {
		d = r.Range(1, minInt(2, maxD))
		ancestor = head - uint64(d)
		lenClass = 2
		m = int(c08Aim - ancestor)
	}
	own := w.Blocks[len(w.Blocks)-d:]

	// ---- the fork builder: a node that sits on the ancestor and continues differently
	bdb := CloneDB(src.DB)
	var builderOwner *Actor
	B, err := tmpReplica(w, w.God, bdb, "forkBuilder")
	if err != nil {
		rep.Note("fork builder failed to boot: %v", err)
		return
	}
	defer func() { B.Dispose() }()
	if _, err := B.Chain.ResetTo(ancestor); err != nil {
		rep.Note("fork builder could not go back to %d: %v", ancestor, err)
		return
	}
	// choose an owner that may propose on the ancestor state
	for _, a := range append([]*Actor{w.God}, w.Nodes...) {
		vc := B.AppState.ValidatorsCache
		if vc.IsOnlineIdentity(a.Addr) || B.AppState.State.GodAddress() == a.Addr && vc.OnlineSize() == 0 {
			builderOwner = a
			break
		}
	}
	// a shorter fork can only win with a better first seed: pick, among the eligible owners, one whose
	// VRF seed for the first fork block beats our own block at that height (if there is one)
	if lenClass == 0 {
		ownFirst := own[0]
		for _, a := range append([]*Actor{w.God}, w.Nodes...) {
			vc := B.AppState.ValidatorsCache
			if !(vc.IsOnlineIdentity(a.Addr) || B.AppState.State.GodAddress() == a.Addr && vc.OnlineSize() == 0) {
				continue
			}
			ss := secstore.NewSecStore()
			ss.AddKey(crypto.FromECDSA(a.Key))
			seedData := append(B.Head().Seed().Bytes(), common.ToBytes(B.Head().Height()+1)...)
			sd, _ := ss.VrfEvaluate(seedData)
			if bytes.Compare(sd[:], ownFirst.Seed().Bytes()) > 0 {
				builderOwner = a
				break
			}
		}
	}
	savedNow := w.Now()
	defer setClock(savedNow)
	var fork []types.BlockBundle
	var forkTxs []*types.Transaction
	w.ViewOverride = B
	defer func() { w.ViewOverride = nil }()
	tipShape := certShape(r.Pick(2, 3, 2, 2, 2, 6, 3))
	if lenClass == 0 && r.Intn(3) != 0 {
		tipShape = certValid
	}
	innerShape := certShape(r.Pick(4, 2, 1, 1, 1, 4, 0))
	tamperTip := r.Intn(8) == 0
	contentClass := "plain"
	if c08Flood {
		tipShape, innerShape, tamperTip = certValid, certValid, false
	}
	var comesOnline *Actor
	if c08Aim != 0 {
		tipShape, tamperTip = certValid, false // replaced by the post-block certificate below when one can be formed
		// somebody validated, offline, with a key we hold, and no switch pending
		pending := map[common.Address]bool{}
		for _, a := range B.AppState.State.StatusSwitchAddresses() {
			pending[a] = true
		}
		for _, a := range w.SortedActors() {
			if B.AppState.IdentityState.IsValidated(a.Addr) && !B.AppState.IdentityState.IsOnline(a.Addr) && !pending[a.Addr] && B.AppState.State.Delegatee(a.Addr) == nil {
				comesOnline = a
				break
			}
		}
		if comesOnline != nil {
			tx := w.Tx(comesOnline, types.OnlineStatusTx, nil, nil, attachments.CreateOnlineStatusAttachment(true))
			if err := B.TxPool.AddExternalTxs(validation.InboundTx, tx); err != nil {
				rep.Count("aimed_online_tx_refused:"+ErrClass(err), 1)
				comesOnline = nil
			}
		}
	}
	for j := 0; j < m; j++ {
		prev := B.Head()
		var b *types.Block
		if builderOwner != nil && (lenClass == 0 || r.Intn(4) != 0) { // shorter forks only win with at least as many proposed blocks
			if builderOwner != B.Owner {
				nb, err := tmpReplica(w, builderOwner, B.DB, "forkBuilder")
				if err != nil {
					rep.Note("fork builder re-boot failed: %v", err)
					return
				}
				B = nb
				w.ViewOverride = B
			}
			for k := 0; k < r.Intn(4); k++ {
				if g := w.RandomTx(r, 10); g != nil && g.Tx != nil {
					B.TxPool.AddExternalTxs(validation.InboundTx, g.Tx)
				}
			}
			if t := time.Unix(prev.Time(), 0).Add(11 * time.Second); w.Now().Before(t) {
				setClock(t)
			}
			b = B.Chain.ProposeBlock(nil).Block
		} else {
			b = B.Chain.GenerateEmptyBlock()
			if t := time.Unix(b.Header.Time(), 0); w.Now().Before(t) {
				setClock(t)
			}
		}
		shape := innerShape
		last := j == m-1
		if last {
			shape = tipShape
			if tamperTip {
				nb := cloneBlock(b)
				if nb.Header.ProposedHeader != nil {
					nb.Header.ProposedHeader.TxReceiptsCid = flipBit(nb.Header.ProposedHeader.TxReceiptsCid, r)
				} else {
					nb.Header.EmptyBlockHeader.Root[3] ^= 4
				}
				b = nb
				shape = certValid
				contentClass = "tampered-tip"
			}
		}
		if b.Header.Flags().HasFlag(types.IdentityUpdate) && !last && (shape == certNil || shape == certEmpty) {
			shape = certValid // the code demands certificates on identity-update blocks; keep inner blocks acceptable
		}
		cert, ok := shapeCert(w, r, B, prev, b, shape)
		if !ok {
			cert, ok = shapeCert(w, r, B, prev, b, certValid)
			if !ok {
				rep.Count("experiments_dropped_no_quorum_keys", 1)
				return
			}
			if last {
				tipShape = certValid
			} else {
				innerShape = certValid
			}
		}
		fork = append(fork, types.BlockBundle{Block: b, Cert: cert})
		forkTxs = append(forkTxs, b.Body.Transactions...)
		if f := b.Header.Flags(); f.HasFlag(types.IdentityUpdate) {
			contentClass = "identity-update"
		}
		if last && tamperTip {
			break
		}
		var preApproved map[common.Address]bool
		if last && c08Aim != 0 {
			preApproved = map[common.Address]bool{}
			vc := B.AppState.ValidatorsCache
			if cm := vc.GetOnlineValidators(prev.Seed(), b.Height(), types.Final, B.Chain.GetCommitteeSize(vc, true)); cm != nil {
				for _, x := range cm.ApprovedValidators.ToSlice() {
					preApproved[x.(common.Address)] = true
				}
			}
		}
		if err := B.AddBlock(b); err != nil {
			rep.Note("fork builder refused its own block: %v", err)
			return
		}
		if last && c08Aim != 0 {
			rep.Count("aimed_experiments", 1)
			if comesOnline != nil && B.AppState.IdentityState.IsOnline(comesOnline.Addr) {
				rep.Count("aimed_tip_switches_somebody_online", 1)
			}
			// the committee as drawn from the validator set AFTER the tip
			post, quorum := w.MakeCert(B, B.AppState.ValidatorsCache, prev, b, types.Final)
			foreign := 0
			for _, v := range post.Votes {
				if !preApproved[v.VoterAddr()] {
					foreign++
				}
			}
			if quorum && foreign > 0 {
				fork[len(fork)-1].Cert = post.Compress()
				tipShape = certPostBlock
				rep.Count("aimed_post_block_certificates", 1)
			}
		}
	}
	if tamperTip && len(fork) != m {
		return
	}

	// ---- the node under test
	adb := CloneDB(src.DB)
	A, err := tmpReplica(w, w.God, adb, "adopter")
	if err != nil {
		rep.Note("adopter failed to boot: %v", err)
		return
	}
	defer A.Dispose()
	resolver := consensus.NewForkResolver(nil, nil, A.Chain, A.Stats)
	before, _ := DigestDB(A.DB, nil)
	perr := resolver.VerifProcessBlocks(fork)
	rep.Eval(1)
	rep.Count("fork_offers", 1)
	lc := []string{"shorter", "equal", "longer"}[lenClass]
	rep.Count("len:"+lc, 1)
	rep.Count("tip-cert:"+certShapeNames[tipShape], 1)
	rep.Count("inner-cert:"+certShapeNames[innerShape], 1)
	rep.Count("content:"+contentClass, 1)
	rep.Distinct(lc, certShapeNames[tipShape], certShapeNames[innerShape], contentClass, len(fork) > 5)
	if rep.Get("samples_taken") < 5 {
		rep.Count("samples_taken", 1)
		rep.Sample(map[string]interface{}{"own_branch_blocks": d, "fork_blocks": len(fork), "tip_cert": certShapeNames[tipShape], "inner_certs": certShapeNames[innerShape],
			"content": contentClass, "processBlocks": fmt.Sprint(perr), "fork_tip": DescribeBlock(fork[len(fork)-1].Block)})
	}
	if perr != nil || !resolver.HasLoadedFork() {
		rep.Count("refused", 1)
		rep.Count("refused:"+ErrClass(perr), 1)
		after, _ := DigestDB(A.DB, nil)
		if after != before || A.Head().Height() != head {
			rep.Violation("refused-fork-left-trace:"+certShapeNames[tipShape], fmt.Sprintf("refused fork (%v) changed the node: head %d->%d db %s->%s", perr, head, A.Head().Height(), before, after), nil)
		}
		return
	}
	// adoption is about to happen: the tip certificate must be a valid quorum certificate and the
	// fork blocks valid
	if tipShape != certValid {
		rep.Violation("fork-accepted-with-tip-cert:"+certShapeNames[tipShape], fmt.Sprintf("a fork of %d blocks (own branch %d, %s) whose tip certificate is %s passed processBlocks/ValidateSubChain",
			len(fork), d, contentClass, certShapeNames[tipShape]), map[string]interface{}{"tip": DescribeBlock(fork[len(fork)-1].Block)})
		return
	}
	if tamperTip {
		rep.Violation("fork-accepted-with-invalid-block", "a fork whose tip block has a tampered derived field (with a quorum certificate over it) passed ValidateSubChain", map[string]interface{}{"tip": DescribeBlock(fork[len(fork)-1].Block)})
		return
	}
	reverted, aerr := resolver.ApplyFork()
	if aerr != nil {
		rep.Violation("validated-fork-not-applicable:"+ErrClass(aerr), fmt.Sprintf("fork passed ValidateSubChain but ApplyFork failed: %v", aerr), nil)
		return
	}
	rep.Count("adopted", 1)
	rep.Count("adopted:"+lc, 1)
	// reverted txs = txs of the abandoned blocks
	var want, got []string
	for _, ob := range own {
		for _, tx := range ob.Body.Transactions {
			want = append(want, tx.Hash().Hex())
		}
	}
	for _, tx := range reverted {
		got = append(got, tx.Hash().Hex())
	}
	sort.Strings(want)
	sort.Strings(got)
	if fmt.Sprint(want) != fmt.Sprint(got) {
		rep.Violation("reverted-txs-differ", fmt.Sprintf("abandoned blocks carried %d txs, %d were handed back (%v vs %v)", len(want), len(got), want, got), nil)
	}
	// ---- certificates: a node that followed the fork keeps the certificate of every block it got
	// one for (at least until later blocks displace the non-permanent ones); they are what it
	// serves to syncing peers
	for _, fb := range fork {
		if fb.Cert.Empty() {
			continue
		}
		rep.Count("fork_certificates_delivered", 1)
		if c := A.Chain.GetCertificate(fb.Block.Hash()); c.Empty() {
			kind := "plain"
			if fb.Block.Header.Flags().HasFlag(types.IdentityUpdate | types.Snapshot | types.NewGenesis) {
				kind = "permanent-class"
			}
			rep.Violation("adoption-differs-from-clean-sync:certificate-not-stored:"+kind, fmt.Sprintf("fork block %d (%s) was delivered with a certificate of %d signatures, after adoption the node stores none for it (fork of %d blocks, tip %d)",
				fb.Block.Height(), BlockKind(fb.Block), len(fb.Cert.Signatures), len(fork), fork[len(fork)-1].Block.Height()), nil)
			break
		}
	}
	// ---- re-inclusion: the engine hands the list to the pool as it got it
	// (engine.txpool.AddExternalTxs(MempoolTx, revertedTxs...)); what the pool keeps must not be
	// less than what it keeps when the same txs arrive in the order the abandoned blocks carried them
	if len(reverted) > 0 {
		inFork := map[common.Hash]bool{}
		for _, tx := range forkTxs {
			inFork[tx.Hash()] = true
		}
		var chainOrder []*types.Transaction
		perSender := map[common.Address]int{}
		for _, ob := range own {
			for _, tx := range ob.Body.Transactions {
				chainOrder = append(chainOrder, tx)
				if !inFork[tx.Hash()] {
					perSender[senderOf(tx)]++
				}
			}
		}
		maxPer := 0
		for _, n := range perSender {
			if n > maxPer {
				maxPer = n
			}
		}
		rep.Max("max_reverted_txs_of_one_sender", maxPer)
		if maxPer > A.Cfg.Mempool.TxPoolAddrQueueLimit {
			rep.Count("adoptions_reverting_more_txs_of_one_sender_than_the_queue_limit", 1)
		}
		if A2, err := tmpReplica(w, w.God, CloneDB(A.DB), "adopterCopy"); err == nil {
			defer A2.Dispose()
			A.TxPool.AddExternalTxs(validation.MempoolTx, reverted...)
			A2.TxPool.AddExternalTxs(validation.MempoolTx, chainOrder...)
			have := map[common.Hash]bool{}
			for _, tx := range A.TxPool.VerifAll() {
				have[tx.Hash()] = true
			}
			lost := 0
			var example *types.Transaction
			for _, tx := range A2.TxPool.VerifAll() {
				if !have[tx.Hash()] {
					lost++
					example = tx
				}
			}
			rep.Count("reinclusion_checks", 1)
			rep.Count("reverted_txs_back_in_pool", len(have))
			if lost > 0 {
				rep.Violation("reverted-txs-not-reincludable", fmt.Sprintf("%d of the %d transactions of the abandoned blocks are refused by the pool when handed back in the order ApplyFork returned them, although the pool keeps them when they arrive in the order the blocks carried them (e.g. %s nonce %d; most txs of one sender: %d)",
					lost, len(reverted), TxName(example.Type), example.AccountNonce, maxPer), nil)
			}
		}
	}
	// ---- the reference: a node that followed the fork from the start (clean replay from genesis)
	C, err := tmpReplica(w, w.God, dbm.NewMemDB(), "cleanSync")
	if err != nil {
		rep.Note("clean-sync node failed to boot: %v", err)
		return
	}
	defer C.Dispose()
	for _, ob := range w.Blocks[:len(w.Blocks)-d] {
		if err := C.AddBlock(ob); err != nil {
			rep.Note("clean-sync node refused canonical block %d: %v", ob.Height(), err)
			return
		}
	}
	for _, fb := range fork {
		if err := C.Chain.AddBlock(fb.Block, nil, C.Stats); err != nil {
			rep.Violation("adopted-fork-invalid-for-clean-node:"+ErrClass(err), fmt.Sprintf("fork block %d adopted by the node is refused by a node that follows the fork from the start: %v", fb.Block.Height(), err), DescribeBlock(fb.Block))
			return
		}
	}
	var allTxs []*types.Transaction
	allTxs = append(allTxs, forkTxs...)
	for _, ob := range own {
		allTxs = append(allTxs, ob.Body.Transactions...)
	}
	upTo := head
	if fork[len(fork)-1].Block.Height() > upTo {
		upTo = fork[len(fork)-1].Block.Height()
	}
	a, c := chainArtifacts(w, A, ancestor, upTo, allTxs), chainArtifacts(w, C, ancestor, upTo, allTxs)
	if dd := firstDiff(a, c); dd != "" {
		rep.Violation("adoption-differs-from-clean-sync:"+artifactClass(dd), fmt.Sprintf("after adopting a fork (%d own blocks abandoned, %d fork blocks, %s): %s", d, len(fork), contentClass, dd), nil)
	}
}
