package verifsim

// Simulator side of the C11 monitor that drives the REAL protocol.fastSync
// (protocol/zz_verif_c11_test.go): the chain generator with the three kinds of servers, the
// part of a node the gossip handler / fast sync talk to, and the state comparison helpers.
// Nothing here decides the property.

import (
	"bytes"
	"fmt"
	"time"

	"github.com/idena-network/idena-go/blockchain/types"
	"github.com/idena-network/idena-go/core/flip"
	"github.com/idena-network/idena-go/core/mempool"
	"github.com/idena-network/idena-go/core/state"
	"github.com/idena-network/idena-go/keystore"
	"github.com/idena-network/idena-go/pengings"
	"github.com/idena-network/idena-go/subscriptions"
	"github.com/idena-network/idena-go/verifutil"
	dbm "github.com/tendermint/tm-db"
)

// SyncNode is the part of node.NewNodeWithInjections the gossip handler, the downloader and
// fastSync talk to, built on a simulator replica with the node's own constructors.
type SyncNode struct {
	R          *Replica
	Votes      *pengings.Votes
	Proposals  *pengings.Proposals
	KeysPool   *mempool.KeysPool
	Flipper    *flip.Flipper
	Snapshots  *state.SnapshotManager
	KeyStore   *keystore.KeyStore
	SubManager *subscriptions.Manager
}

func NewSyncNode(r *Replica) (*SyncNode, error) {
	n := &SyncNode{R: r}
	n.Votes = pengings.NewVotes(r.AppState, r.Bus, r.Offline, r.Upgrader)
	n.KeysPool = mempool.NewKeysPool(r.DB, r.AppState, r.Bus, r.SecStore)
	n.Proposals, _ = pengings.NewProposals(r.Chain, r.AppState, r.Offline, r.Upgrader, r.Stats)
	n.Flipper = flip.NewFlipper(r.DB, r.Ipfs, n.KeysPool, r.TxPool, r.SecStore, r.AppState, r.Bus)
	n.Snapshots = state.NewSnapshotManager(r.DB, r.AppState.State, r.Bus, r.Ipfs, r.Cfg)
	// a node that is being synced is in Downloader.startSync mode: the snapshot manager does not
	// start its writer goroutine on AddBlock events (it would run concurrently with the harness)
	n.Snapshots.StartSync()
	n.KeyStore = keystore.NewKeyStore(r.Cfg.DataDir+"/c11-keystore", keystore.LightScryptN, keystore.LightScryptP)
	sm, err := subscriptions.NewManager(r.Cfg.DataDir + "/c11-subs")
	if err != nil {
		return nil, err
	}
	n.SubManager = sm
	return n, nil
}

// ScratchReplica boots a replica that is not registered in the world (it gets no blocks from
// NextBlock) on db. A fresh db gives a node at genesis.
func (w *World) ScratchReplica(db dbm.DB, name string) (*Replica, error) {
	return tmpReplica(w, w.God, db, name)
}

// C11Env is one generated chain with the servers a syncing node can meet.
type C11Env struct {
	W *World
	S *Scenario
	// Straight followed the chain block by block with every certificate kept.
	// Reorged went through detours (ResetTo + another block + back) on the way.
	// Sparse keeps certificates the way a node that followed consensus does: permanent for
	// identity-update / snapshot / new-genesis blocks and every CertRange-th height, weak (only the
	// last database.MaxWeakCertificatesCount survive) for the rest.
	Straight, Reorged, Sparse *Replica
	CertRange                 uint64
	Canon                     map[uint64]*types.Block
	Head                      uint64
	Reorgs, SteeredEmpty      int
	Notes                     []string
}

type C11Options struct {
	Seed    uint64
	Variant int // shapes the population like optsFor does
	Steps   int
}

// identityUpdateDue tells whether the block after the view's head applies delayed identity
// changes whatever it contains (conditions of blockchain.calculateFlags).
func (w *World) identityUpdateDue() bool {
	v := w.View()
	st := v.AppState.State
	h := v.Head().Height() + 1
	c := w.Cons
	return h%c.StatusSwitchRange == 0 && (len(st.StatusSwitchAddresses()) > 0 || len(st.DelayedOfflinePenalties()) > 0) ||
		h%c.DelegationSwitchRange == 0 && len(st.Delegations()) > 0 ||
		h%c.DiscriminationSwitchRange == 0 && len(st.DiscriminationStatusSwitchAddresses()) > 0 ||
		st.ValidationPeriod() == state.AfterLongSessionPeriod
}

// C11Build generates a chain with the scenario generator (the workload of TestVerifC11: bursts,
// hostile txs, epochs) and the three servers. Heights at which delayed identity changes are due
// get an empty block more often than elsewhere (a legal history: the proposer was offline), so
// that blocks without transactions that change the identity state are frequent.
func C11Build(o C11Options) (*C11Env, error) {
	sc := o.Variant
	opt := Options{Seed: o.Seed, NNodes: 2 + sc%2, NIdent: 12 + sc%3*6, NAccounts: 3 + sc%3, GodIsIdentity: sc%2 == 1}
	if sc%3 == 2 {
		opt.ValidationInterval = 50 * time.Minute
	}
	if sc%4 == 3 {
		opt.ZeroStakes = true
	}
	opt.StartTime = time.Date(2023, 8, 7+sc%7, 6+sc%13, 0, 0, 0, time.UTC)
	w := NewWorld(opt)
	e := &C11Env{W: w, Canon: map[uint64]*types.Block{}, CertRange: 40}
	reorged := w.NewReplica(w.God, dbm.NewMemDB())
	reorged.Name, reorged.Observer = "reorged-server", true
	e.Reorged = reorged
	if err := w.Prologue(); err != nil {
		return nil, err
	}
	s := NewScenario(w, verifutil.NewRng(o.Seed, 11))
	s.Hostile, s.MaxTxs = 10, 6
	e.S = s
	steer := verifutil.NewRng(o.Seed, 0xc11)
	for i := 0; i < o.Steps; i++ {
		if i%3 == 0 {
			for _, g := range w.Burst(s.R) {
				s.SubmitGen(g)
			}
		}
		pct := s.EmptyPct
		if w.identityUpdateDue() && steer.Intn(3) == 0 {
			s.EmptyPct = 100
			e.SteeredEmpty++
		}
		res := s.Step()
		s.EmptyPct = pct
		if len(res.Errs) > 0 {
			e.Notes = append(e.Notes, fmt.Sprintf("chain generation stopped at step %d: block refused (%v)", i, res.Errs))
			break
		}
		b := res.Block
		// detour of the reorged server: the last block is replaced by another one (an empty block),
		// then the server comes back to the canonical block
		if d := reorged.Chain.GetIdentityDiff(b.Height()); (!d.Empty() || s.R.Intn(10) == 0) && reorged.Head().Hash() == b.Hash() {
			reorged.enter()
			if _, err := reorged.Chain.ResetTo(b.Height() - 1); err == nil {
				alt := reorged.Chain.GenerateEmptyBlock()
				if err := reorged.Chain.AddBlock(alt, nil, reorged.Stats); err == nil {
					e.Reorgs++
					if _, err := reorged.Chain.ResetTo(b.Height() - 1); err == nil {
						if err := reorged.AddBlock(b); err != nil {
							e.Notes = append(e.Notes, fmt.Sprintf("reorged server refused canonical block %d on the way back: %v", b.Height(), err))
						}
					}
				}
			}
		}
	}
	for _, b := range w.Blocks {
		e.Canon[b.Height()] = b
	}
	e.Straight = w.Replicas[1]
	e.Head = e.Straight.Head().Height()
	// the sparse-certificate server follows the canonical chain afterwards
	sp, err := w.ScratchReplica(dbm.NewMemDB(), "sparse-cert-server")
	if err != nil {
		return nil, err
	}
	for _, b := range w.Blocks {
		sp.enter()
		if err := sp.Chain.AddBlock(b, nil, sp.Stats); err != nil {
			return nil, fmt.Errorf("sparse-cert server refused canonical block %d: %w", b.Height(), err)
		}
		if c, ok := w.Certs[b.Hash()]; ok {
			// consensus/engine.go: WriteCertificate(hash, cert, chain.IsPermanentCert(header))
			permanent := b.Header.Flags().HasFlag(types.IdentityUpdate|types.Snapshot|types.NewGenesis) || b.Height()%e.CertRange == 0
			sp.Chain.WriteCertificate(b.Hash(), c, permanent)
		}
	}
	e.Sparse = sp
	return e, nil
}

// FollowTo makes a scratch replica a fully synced node at height h (block by block).
func (e *C11Env) FollowTo(r *Replica, h uint64) error {
	for _, b := range e.W.Blocks {
		if b.Height() <= r.Head().Height() {
			continue
		}
		if b.Height() > h {
			break
		}
		if err := r.AddBlock(b); err != nil {
			return fmt.Errorf("block %d: %w", b.Height(), err)
		}
	}
	return nil
}

// StateContentsDiff compares two state trees key by key (iteration order of the tree) and every
// key by lookup; "" = equal.
func StateContentsDiff(a, b *state.StateDB) string {
	type kv struct{ k, v []byte }
	dump := func(s *state.StateDB) []kv {
		var l []kv
		s.VerifIterateAll(func(k, v []byte) bool {
			l = append(l, kv{append([]byte{}, k...), append([]byte{}, v...)})
			return false
		})
		return l
	}
	la, lb := dump(a), dump(b)
	if len(la) != len(lb) {
		return fmt.Sprintf("%d keys vs %d keys", len(la), len(lb))
	}
	for i := range la {
		if !bytes.Equal(la[i].k, lb[i].k) {
			return fmt.Sprintf("key %d differs: %x vs %x", i, trunc(la[i].k, 12), trunc(lb[i].k, 12))
		}
		if !bytes.Equal(la[i].v, lb[i].v) {
			return fmt.Sprintf("value of key %x differs (%d vs %d bytes)", trunc(la[i].k, 12), len(la[i].v), len(lb[i].v))
		}
		if got := b.VerifTreeGet(la[i].k); !bytes.Equal(got, la[i].v) {
			return fmt.Sprintf("looking key %x up returns %d bytes instead of the stored %d bytes", trunc(la[i].k, 12), len(got), len(la[i].v))
		}
	}
	return ""
}

// IdentityContentsDiff compares two identity trees key by key; "" = equal.
func IdentityContentsDiff(a, b *state.IdentityStateDB) string {
	type kv struct{ k, v []byte }
	dump := func(s *state.IdentityStateDB) []kv {
		var l []kv
		s.IterateIdentities(func(k, v []byte) bool {
			l = append(l, kv{append([]byte{}, k...), append([]byte{}, v...)})
			return false
		})
		return l
	}
	la, lb := dump(a), dump(b)
	if len(la) != len(lb) {
		return fmt.Sprintf("%d identities vs %d identities", len(la), len(lb))
	}
	for i := range la {
		if !bytes.Equal(la[i].k, lb[i].k) || !bytes.Equal(la[i].v, lb[i].v) {
			return fmt.Sprintf("entry %d differs: %x=%x vs %x=%x", i, trunc(la[i].k, 12), trunc(la[i].v, 12), trunc(lb[i].k, 12), trunc(lb[i].v, 12))
		}
	}
	return ""
}
