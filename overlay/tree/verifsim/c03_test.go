package verifsim

import (
	"fmt"
	"github.com/idena-network/idena-go/blockchain/fee"
	"github.com/idena-network/idena-go/blockchain/validation"
	"math/big"
	"testing"
	"time"

	"github.com/idena-network/idena-go/blockchain/types"
	"github.com/idena-network/idena-go/common"
	"github.com/idena-network/idena-go/crypto"
	"github.com/idena-network/idena-go/ipfs"
	"github.com/idena-network/idena-go/secstore"
	"github.com/idena-network/idena-go/verifutil"
	dbm "github.com/tendermint/tm-db"
)

// C03: a block with any inconsistent derived field is rejected, side-effect free.

type tamperOp struct {
	name  string
	empty bool // applies to empty blocks
	prop  bool // applies to proposed blocks
	f     func(c *tamperCtx) *types.Block
}

type tamperCtx struct {
	w      *World
	r      *verifutil.Rng
	b      *types.Block
	other  *types.Block // an earlier block of the same kind (values "taken from another block")
	same   *types.Block // an earlier block built by the same proposer (nil if none yet)
	victim *Replica
}

func cloneBlock(b *types.Block) *types.Block {
	nb := &types.Block{Header: &types.Header{}, Body: &types.Body{Transactions: append([]*types.Transaction{}, b.Body.Transactions...)}}
	if b.Header.ProposedHeader != nil {
		h := *b.Header.ProposedHeader
		h.ProposerPubKey = append([]byte{}, h.ProposerPubKey...)
		h.IpfsHash = append([]byte(nil), h.IpfsHash...)
		h.TxBloom = append([]byte(nil), h.TxBloom...)
		h.SeedProof = append([]byte{}, h.SeedProof...)
		h.TxReceiptsCid = append([]byte(nil), h.TxReceiptsCid...)
		if h.FeePerGas != nil {
			h.FeePerGas = new(big.Int).Set(h.FeePerGas)
		}
		nb.Header.ProposedHeader = &h
	} else {
		h := *b.Header.EmptyBlockHeader
		nb.Header.EmptyBlockHeader = &h
	}
	return nb
}

func flipBit(b []byte, r *verifutil.Rng) []byte {
	if len(b) == 0 {
		return []byte{1}
	}
	o := append([]byte{}, b...)
	o[r.Intn(len(o))] ^= 1 << uint(r.Intn(8))
	return o
}

func hashOp(name string, get func(h *types.ProposedHeader) *common.Hash, getE func(h *types.EmptyBlockHeader) *common.Hash) []tamperOp {
	mk := func(variant string, mut func(c *tamperCtx, x *common.Hash, o *common.Hash)) tamperOp {
		return tamperOp{name: name + "/" + variant, empty: getE != nil, prop: get != nil, f: func(c *tamperCtx) *types.Block {
			nb := cloneBlock(c.b)
			var x, o *common.Hash
			if nb.Header.ProposedHeader != nil {
				if get == nil {
					return nil
				}
				x = get(nb.Header.ProposedHeader)
				if c.other != nil && c.other.Header.ProposedHeader != nil {
					o = get(c.other.Header.ProposedHeader)
				}
			} else {
				if getE == nil {
					return nil
				}
				x = getE(nb.Header.EmptyBlockHeader)
				if c.other != nil && c.other.Header.EmptyBlockHeader != nil {
					o = getE(c.other.Header.EmptyBlockHeader)
				}
			}
			mut(c, x, o)
			return nb
		}}
	}
	return []tamperOp{
		mk("bitflip", func(c *tamperCtx, x, o *common.Hash) { x[c.r.Intn(32)] ^= 1 << uint(c.r.Intn(8)) }),
		mk("zero", func(c *tamperCtx, x, o *common.Hash) { *x = common.Hash{} }),
		mk("from-other-block", func(c *tamperCtx, x, o *common.Hash) {
			if o != nil {
				*x = *o
			}
		}),
	}
}

func bytesOp(name string, get func(h *types.ProposedHeader) *[]byte) []tamperOp {
	mk := func(variant string, mut func(c *tamperCtx, x *[]byte, o *[]byte)) tamperOp {
		return tamperOp{name: name + "/" + variant, prop: true, f: func(c *tamperCtx) *types.Block {
			nb := cloneBlock(c.b)
			var o *[]byte
			if c.other != nil && c.other.Header.ProposedHeader != nil {
				o = get(c.other.Header.ProposedHeader)
			}
			mut(c, get(nb.Header.ProposedHeader), o)
			return nb
		}}
	}
	return []tamperOp{
		mk("bitflip", func(c *tamperCtx, x, o *[]byte) { *x = flipBit(*x, c.r) }),
		mk("nil", func(c *tamperCtx, x, o *[]byte) { *x = nil }),
		mk("from-other-block", func(c *tamperCtx, x, o *[]byte) {
			if o != nil {
				*x = append([]byte(nil), (*o)...)
			}
		}),
	}
}

func recommit(c *tamperCtx, nb *types.Block, bodyCid bool) {
	h := nb.Header.ProposedHeader
	h.TxHash = types.DeriveSha(types.Transactions(nb.Body.Transactions))
	if bodyCid {
		cid, _ := c.victim.Ipfs.Cid(nb.Body.ToBytes())
		h.IpfsHash = nil
		if cid != ipfs.EmptyCid {
			h.IpfsHash = cid.Bytes()
		}
	}
}

func tamperOps() []tamperOp {
	var ops []tamperOp
	ops = append(ops, hashOp("Root", func(h *types.ProposedHeader) *common.Hash { return &h.Root }, func(h *types.EmptyBlockHeader) *common.Hash { return &h.Root })...)
	ops = append(ops, hashOp("IdentityRoot", func(h *types.ProposedHeader) *common.Hash { return &h.IdentityRoot }, func(h *types.EmptyBlockHeader) *common.Hash { return &h.IdentityRoot })...)
	ops = append(ops, hashOp("ParentHash", func(h *types.ProposedHeader) *common.Hash { return &h.ParentHash }, func(h *types.EmptyBlockHeader) *common.Hash { return &h.ParentHash })...)
	ops = append(ops, hashOp("TxHash", func(h *types.ProposedHeader) *common.Hash { return &h.TxHash }, nil)...)
	ops = append(ops, hashOp("BlockSeed", func(h *types.ProposedHeader) *common.Hash { return (*common.Hash)(&h.BlockSeed) }, func(h *types.EmptyBlockHeader) *common.Hash { return (*common.Hash)(&h.BlockSeed) })...)
	ops = append(ops, bytesOp("TxBloom", func(h *types.ProposedHeader) *[]byte { return &h.TxBloom })...)
	ops = append(ops, bytesOp("IpfsHash", func(h *types.ProposedHeader) *[]byte { return &h.IpfsHash })...)
	ops = append(ops, bytesOp("TxReceiptsCid", func(h *types.ProposedHeader) *[]byte { return &h.TxReceiptsCid })...)
	ops = append(ops, bytesOp("SeedProof", func(h *types.ProposedHeader) *[]byte { return &h.SeedProof })...)
	setHeight := func(nb *types.Block, d int64) {
		if nb.Header.ProposedHeader != nil {
			nb.Header.ProposedHeader.Height = uint64(int64(nb.Header.ProposedHeader.Height) + d)
		} else {
			nb.Header.EmptyBlockHeader.Height = uint64(int64(nb.Header.EmptyBlockHeader.Height) + d)
		}
	}
	for _, d := range []int64{1, -1} {
		d := d
		ops = append(ops, tamperOp{name: fmt.Sprintf("Height/%+d", d), empty: true, prop: true, f: func(c *tamperCtx) *types.Block { nb := cloneBlock(c.b); setHeight(nb, d); return nb }})
	}
	// persistent flag bits (offline-vote bits are the proposer's free choice and are not touched)
	for _, fl := range []struct {
		n string
		f types.BlockFlag
	}{{"IdentityUpdate", types.IdentityUpdate}, {"FlipLotteryStarted", types.FlipLotteryStarted}, {"ShortSessionStarted", types.ShortSessionStarted},
		{"LongSessionStarted", types.LongSessionStarted}, {"AfterLongSessionStarted", types.AfterLongSessionStarted}, {"ValidationFinished", types.ValidationFinished},
		{"Snapshot", types.Snapshot}, {"NewGenesis", types.NewGenesis}} {
		fl := fl
		ops = append(ops, tamperOp{name: "Flags/toggle-" + fl.n, empty: true, prop: true, f: func(c *tamperCtx) *types.Block {
			nb := cloneBlock(c.b)
			if nb.Header.ProposedHeader != nil {
				nb.Header.ProposedHeader.Flags ^= fl.f
			} else {
				nb.Header.EmptyBlockHeader.Flags ^= fl.f
			}
			return nb
		}})
	}
	// a stated, non-zero, wrong fee rate
	for _, d := range []int64{1, -1, 1000000} {
		d := d
		ops = append(ops, tamperOp{name: fmt.Sprintf("FeePerGas/%+d", d), prop: true, f: func(c *tamperCtx) *types.Block {
			nb := cloneBlock(c.b)
			cur := c.victim.AppState.State.FeePerGas()
			v := new(big.Int).Add(cur, big.NewInt(d))
			if v.Sign() <= 0 {
				return nil
			}
			nb.Header.ProposedHeader.FeePerGas = v
			return nb
		}})
	}
	// timestamp window
	ops = append(ops, tamperOp{name: "Time/below-min-delay", prop: true, f: func(c *tamperCtx) *types.Block {
		nb := cloneBlock(c.b)
		nb.Header.ProposedHeader.Time = c.victim.Head().Time() + int64(c.r.Range(-30, 9))
		return nb
	}})
	ops = append(ops, tamperOp{name: "Time/beyond-future-offset", prop: true, f: func(c *tamperCtx) *types.Block {
		nb := cloneBlock(c.b)
		nb.Header.ProposedHeader.Time = c.w.Now().Unix() + 121 + int64(c.r.Intn(100000))
		return nb
	}})
	// extreme timestamps (arithmetic on them must not wrap into the window)
	for _, ex := range []struct {
		n string
		v int64
	}{{"max-int64", 1<<63 - 1}, {"near-max-int64", 1<<63 - 1 - 62135596800 + 5}, {"min-int64", -1 << 63}, {"zero", 0}, {"negative", -1000}, {"max-int32-overflow", 1 << 32}} {
		ex := ex
		ops = append(ops, tamperOp{name: "Time/extreme-" + ex.n, prop: true, f: func(c *tamperCtx) *types.Block {
			nb := cloneBlock(c.b)
			nb.Header.ProposedHeader.Time = ex.v
			if ex.n == "max-int32-overflow" {
				nb.Header.ProposedHeader.Time = c.w.Now().Unix() + ex.v
			}
			return nb
		}})
	}
	ops = append(ops, tamperOp{name: "Time/equal-to-parent", prop: true, f: func(c *tamperCtx) *types.Block {
		nb := cloneBlock(c.b)
		nb.Header.ProposedHeader.Time = c.victim.Head().Time()
		return nb
	}})
	// a header that carries BOTH variants: the honest one plus a junk one of the other kind
	// (only height and parent correct)
	ops = append(ops, tamperOp{name: "Header/empty-plus-junk-proposed", empty: true, f: func(c *tamperCtx) *types.Block {
		nb := cloneBlock(c.b)
		e := nb.Header.EmptyBlockHeader
		nb.Header.ProposedHeader = &types.ProposedHeader{ParentHash: e.ParentHash, Height: e.Height, Time: e.Time, ProposerPubKey: c.w.God.Pub,
			Root: common.Hash{2}, IdentityRoot: common.Hash{3}, TxHash: common.Hash{7}, TxBloom: []byte{255}, IpfsHash: []byte{1, 2, 3}, BlockSeed: types.Seed{4},
			FeePerGas: big.NewInt(12345), SeedProof: []byte{5}, TxReceiptsCid: []byte{9}, Flags: types.Snapshot}
		return nb
	}})
	ops = append(ops, tamperOp{name: "Header/proposed-plus-junk-empty", prop: true, f: func(c *tamperCtx) *types.Block {
		nb := cloneBlock(c.b)
		p := nb.Header.ProposedHeader
		nb.Header.EmptyBlockHeader = &types.EmptyBlockHeader{ParentHash: p.ParentHash, Height: p.Height, Time: p.Time, Root: common.Hash{2}, IdentityRoot: common.Hash{3}, BlockSeed: types.Seed{4}}
		return nb
	}})
	ops = append(ops, tamperOp{name: "Time/empty-changed", empty: true, f: func(c *tamperCtx) *types.Block {
		nb := cloneBlock(c.b)
		nb.Header.EmptyBlockHeader.Time += int64(c.r.Range(1, 50))
		return nb
	}})
	// body edits, with and without recomputing the transaction commitment
	for _, rc := range []bool{false, true} {
		rc := rc
		sfx := "/commitment-stale"
		if rc {
			sfx = "/commitment-recomputed"
		}
		ops = append(ops, tamperOp{name: "Body/drop-tx" + sfx, prop: true, f: func(c *tamperCtx) *types.Block {
			if len(c.b.Body.Transactions) == 0 {
				return nil
			}
			nb := cloneBlock(c.b)
			i := c.r.Intn(len(nb.Body.Transactions))
			nb.Body.Transactions = append(nb.Body.Transactions[:i:i], nb.Body.Transactions[i+1:]...)
			if rc {
				recommit(c, nb, true)
			}
			return nb
		}})
		ops = append(ops, tamperOp{name: "Body/duplicate-tx" + sfx, prop: true, f: func(c *tamperCtx) *types.Block {
			if len(c.b.Body.Transactions) == 0 {
				return nil
			}
			nb := cloneBlock(c.b)
			nb.Body.Transactions = append(nb.Body.Transactions, nb.Body.Transactions[c.r.Intn(len(nb.Body.Transactions))])
			if rc {
				recommit(c, nb, true)
			}
			return nb
		}})
		ops = append(ops, tamperOp{name: "Body/reorder" + sfx, prop: true, f: func(c *tamperCtx) *types.Block {
			n := len(c.b.Body.Transactions)
			if n < 2 {
				return nil
			}
			nb := cloneBlock(c.b)
			i := c.r.Intn(n - 1)
			t := nb.Body.Transactions
			t[i], t[i+1] = t[i+1], t[i]
			if rc {
				// a reordering of independent txs with a fully recomputed commitment is a different VALID
				// block; recompute the tx hash only, so that the body content id must still expose it -
				// unless both txs are of one sender (nonce order broken: invalid in any case)
				recommit(c, nb, senderOf(t[i]) == senderOf(t[i+1]))
			}
			return nb
		}})
		ops = append(ops, tamperOp{name: "Body/append-foreign-epoch-tx" + sfx, prop: true, f: func(c *tamperCtx) *types.Block {
			nb := cloneBlock(c.b)
			a := c.w.pickActor(c.r, func(a *Actor, _ stateIdentity) bool { return c.w.Balance(a.Addr).Cmp(Dna(5)) > 0 })
			if a == nil {
				return nil
			}
			to := c.w.God.Addr
			ep := c.victim.AppState.State.Epoch()
			tx := SignedTx(a, types.SendTx, &to, Dna(1), Dna(100), nil, 1, ep+uint16(c.r.Range(1, 3)), nil)
			nb.Body.Transactions = append(nb.Body.Transactions, tx)
			if rc {
				recommit(c, nb, true)
			}
			return nb
		}})
		ops = append(ops, tamperOp{name: "Body/append-unaffordable-tx" + sfx, prop: true, f: func(c *tamperCtx) *types.Block {
			nb := cloneBlock(c.b)
			a := c.w.pickActor(c.r, nil)
			to := c.w.God.Addr
			amount := new(big.Int).Add(c.w.Balance(a.Addr), Dna(int64(c.r.Range(1, 100000))))
			// next nonce after whatever the block already carries from this sender
			nonce := c.w.StateNonce(a)
			for _, tx := range nb.Body.Transactions {
				if senderOf(tx) == a.Addr {
					nonce++
				}
			}
			tx := SignedTx(a, types.SendTx, &to, amount, Dna(100), nil, nonce, c.victim.AppState.State.Epoch(), nil)
			nb.Body.Transactions = append(nb.Body.Transactions, tx)
			if rc {
				recommit(c, nb, true)
			}
			return nb
		}})
	}
	// an empty block (the header carries no transaction commitment) delivered with transactions
	ops = append(ops, tamperOp{name: "Body/transactions-on-an-empty-block", empty: true, f: func(c *tamperCtx) *types.Block {
		nb := cloneBlock(c.b)
		a := c.w.pickActor(c.r, func(a *Actor, _ stateIdentity) bool { return c.w.Balance(a.Addr).Cmp(Dna(5)) > 0 })
		if a == nil {
			return nil
		}
		to := c.w.God.Addr
		nb.Body.Transactions = append(nb.Body.Transactions, SignedTx(a, types.SendTx, &to, Dna(1), Dna(2), nil, c.w.StateNonce(a), c.victim.AppState.State.Epoch(), nil))
		return nb
	}})
	// the seed and its proof taken as a pair from an earlier block of the SAME proposer (a valid VRF
	// output of that key, but over another parent seed / height)
	ops = append(ops, tamperOp{name: "Seed/pair-replayed-from-earlier-block-of-the-proposer", prop: true, f: func(c *tamperCtx) *types.Block {
		if c.same == nil || c.same.Header.ProposedHeader == nil {
			return nil
		}
		nb := cloneBlock(c.b)
		nb.Header.ProposedHeader.BlockSeed = c.same.Header.ProposedHeader.BlockSeed
		nb.Header.ProposedHeader.SeedProof = append([]byte{}, c.same.Header.ProposedHeader.SeedProof...)
		return nb
	}})
	// more transactions than the block gas limit admits, with an invalid one behind the crossing point
	for _, tail := range []string{"duplicate-of-a-block-tx", "unaffordable"} {
		tail := tail
		ops = append(ops, tamperOp{name: "Body/over-gas-limit-then-" + tail, prop: true, f: func(c *tamperCtx) *types.Block {
			nb := cloneBlock(c.b)
			inBlock := map[common.Address]bool{}
			for _, tx := range nb.Body.Transactions {
				inBlock[senderOf(tx)] = true
			}
			a := c.w.pickActor(c.r, func(a *Actor, _ stateIdentity) bool {
				return !inBlock[a.Addr] && c.w.Balance(a.Addr).Cmp(Dna(3000)) > 0
			})
			if a == nil {
				return nil
			}
			to := c.w.God.Addr
			ep := c.victim.AppState.State.Epoch()
			nonce := c.w.StateNonce(a)
			fpg := c.victim.AppState.State.FeePerGas()
			for k := 0; k < 12; k++ { // 12 x 100 KiB payloads: four times the block gas limit
				pl := c.r.Bytes(100 * 1024)
				probe := SignedTx(a, types.SendTx, &to, big.NewInt(1), Dna(1), nil, nonce+uint32(k), ep, pl)
				maxFee := new(big.Int).Mul(fee.CalculateFee(c.victim.AppState.ValidatorsCache.NetworkSize(), fpg, probe), big.NewInt(2))
				nb.Body.Transactions = append(nb.Body.Transactions, SignedTx(a, types.SendTx, &to, big.NewInt(1), maxFee, nil, nonce+uint32(k), ep, pl))
			}
			switch tail {
			case "duplicate-of-a-block-tx":
				if len(c.b.Body.Transactions) == 0 {
					return nil
				}
				nb.Body.Transactions = append(nb.Body.Transactions, c.b.Body.Transactions[0])
			default:
				b2 := c.w.pickActor(c.r, func(x *Actor, _ stateIdentity) bool { return x != a && !inBlock[x.Addr] })
				if b2 == nil {
					return nil
				}
				amount := new(big.Int).Add(c.w.Balance(b2.Addr), Dna(1000))
				nb.Body.Transactions = append(nb.Body.Transactions, SignedTx(b2, types.SendTx, &to, amount, Dna(100), nil, c.w.StateNonce(b2), ep, nil))
			}
			recommit(c, nb, true)
			return nb
		}})
	}
	return ops
}

type victimSnap struct {
	head         common.Hash
	root, idRoot common.Hash
	versions     string
	dbDigest     string
	dbKeys       int
}

func snapVictim(v *Replica) victimSnap {
	d, n := DigestDB(v.DB, nil)
	return victimSnap{head: v.Head().Hash(), root: v.AppState.State.Root(), idRoot: v.AppState.IdentityState.Root(),
		versions: fmt.Sprint(v.AppState.State.VerifAvailableVersions(), v.AppState.IdentityState.VerifAvailableVersions()), dbDigest: d, dbKeys: n}
}

func TestVerifC03(t *testing.T) {
	if !verifutil.Enabled() {
		t.Skip("verif harness")
	}
	rep := verifutil.NewReport()
	defer rep.Write()
	nScen := verifutil.Scale(2, 6)
	steps := verifutil.Scale(150, 320)
	every := verifutil.Scale(5, 2) // tamper every n-th block
	ops := tamperOps()
	for sc := 0; sc < nScen; sc++ {
		seed := scenSeed(sc)
		w := NewWorld(optsFor(sc, seed))
		victim := w.NewReplica(w.God, dbm.NewMemDB())
		victim.Name, victim.Observer = "victim", true
		twin := w.AddTwin()
		// an honest-looking proposer that is NOT eligible: a plain account / an offline identity
		outsiderA := NewActor(seed, "outsider", 0)
		if !startScenario(w, rep, false) {
			w.Cleanup()
			continue
		}
		s := NewScenario(w, verifutil.NewRng(seed, 3))
		s.Hostile, s.MaxTxs, s.EmptyPct = 10, 7, 20
		r := verifutil.NewRng(seed, 33)
		lastOfKind := map[bool]*types.Block{}
		lastByProposer := map[string]*types.Block{}
		everOnline := map[common.Address]bool{}
		for i := 0; i < steps; i++ {
			rep.Progress("C03 scenario %d seed %d step %d", sc, seed, i)
			doTamper := i%every == 0
			w.beforeDistribute = func(b *types.Block, p *Replica) {
				if !doTamper {
					return
				}
				victim.enter()
				kind := "proposed"
				if b.IsEmpty() {
					kind = "empty"
				}
				ctx := &tamperCtx{w: w, r: r, b: b, other: lastOfKind[b.IsEmpty()], victim: victim}
				if !b.IsEmpty() {
					ctx.same = lastByProposer[string(b.Header.ProposedHeader.ProposerPubKey)]
				}
				origBytes, _ := b.ToBytes()
				before := snapVictim(victim)
				list := ops
				for _, op := range list {
					if b.IsEmpty() && !op.empty || !b.IsEmpty() && !op.prop {
						continue
					}
					nb := op.f(ctx)
					if nb == nil {
						continue
					}
					if eb, _ := nb.ToBytes(); string(eb) == string(origBytes) {
						rep.Count("noop_operators_skipped", 1)
						continue // e.g. nil -> empty byte string: indistinguishable on the wire
					}
					tryTampered(rep, w, victim, &before, b, nb, op.name, kind)
				}
				// ineligible proposer: a complete, self-consistent block built by the real
				// ProposeBlock of a node whose key is not an online identity (isolates eligibility)
				if !b.IsEmpty() {
					if nb := proposeAs(w, victim, outsiderA); nb != nil {
						tryTampered(rep, w, victim, &before, b, nb, "Proposer/not-an-identity", kind)
					}
					if off := w.pickActor(r, func(a *Actor, _ stateIdentity) bool {
						return victim.AppState.ValidatorsCache.IsValidated(a.Addr) && !victim.AppState.ValidatorsCache.IsOnlineIdentity(a.Addr) && a != w.God
					}); off != nil {
						if nb := proposeAs(w, victim, off); nb != nil {
							tryTampered(rep, w, victim, &before, b, nb, "Proposer/offline-identity", kind)
						}
					}
					// an identity that the LEDGER says is not validated any more (killed / failed) but that
					// was a validator before: the node's cached validator view must not keep it eligible
					if dead := w.pickActor(r, func(a *Actor, id stateIdentity) bool {
						return everOnline[a.Addr] && !id.State.NewbieOrBetter() && a != w.God && !victim.AppState.IdentityState.IsOnline(a.Addr)
					}); dead != nil {
						if nb := proposeAs(w, victim, dead); nb != nil {
							tryTampered(rep, w, victim, &before, b, nb, "Proposer/formerly-online-now-not-validated", kind)
						}
					}
				}
				// a block whose last tx crosses the block gas limit (allowed) with something appended behind it
				if !b.IsEmpty() && len(b.Body.Transactions) > 0 {
					used := uint64(0)
					for _, tx := range b.Body.Transactions {
						used += uint64(fee.CalculateGas(tx))
					}
					if _, rcs, err := victim.Chain.VerifValidateOnCheck(b); err == nil {
						for _, rc := range rcs {
							used += rc.GasUsed
						}
					}
					if used > types.MaxBlockSize(w.Cons.EnableUpgrade11) {
						rep.Count("blocks_crossing_the_gas_limit_with_their_last_tx", 1)
						inBlock := map[common.Address]bool{}
						for _, tx := range b.Body.Transactions {
							inBlock[senderOf(tx)] = true
						}
						for _, tail := range []string{"valid-tx", "duplicate-of-a-block-tx", "unaffordable-tx"} {
							nb := cloneBlock(b)
							to := w.God.Addr
							switch tail {
							case "valid-tx":
								a := w.pickActor(r, func(a *Actor, _ stateIdentity) bool { return !inBlock[a.Addr] && w.Balance(a.Addr).Cmp(Dna(5)) > 0 })
								if a == nil {
									continue
								}
								probe := SignedTx(a, types.SendTx, &to, Dna(1), Dna(1), nil, w.StateNonce(a), victim.AppState.State.Epoch(), nil)
								maxFee := new(big.Int).Add(new(big.Int).Mul(fee.CalculateFee(victim.AppState.ValidatorsCache.NetworkSize(), victim.AppState.State.FeePerGas(), probe), big.NewInt(3)), big.NewInt(1000))
								nb.Body.Transactions = append(nb.Body.Transactions, SignedTx(a, types.SendTx, &to, Dna(1), maxFee, nil, probe.AccountNonce, probe.Epoch, nil))
							case "duplicate-of-a-block-tx":
								nb.Body.Transactions = append(nb.Body.Transactions, b.Body.Transactions[0])
							default:
								a := w.pickActor(r, func(a *Actor, _ stateIdentity) bool { return !inBlock[a.Addr] })
								if a == nil {
									continue
								}
								amount := new(big.Int).Add(w.Balance(a.Addr), Dna(1000))
								nb.Body.Transactions = append(nb.Body.Transactions, SignedTx(a, types.SendTx, &to, amount, Dna(100), nil, w.StateNonce(a), victim.AppState.State.Epoch(), nil))
							}
							recommit(ctx, nb, true)
							tryTampered(rep, w, victim, &before, b, nb, "Body/append-behind-the-gas-limit-crossing/"+tail, kind)
						}
					}
				}
				rep.Count("blocks_tampered:"+kind, 1)
			}
			// directed: a proposal whose cumulative gas sits exactly on the limit with one more tx following
			if i%30 == 17 && twin.CanPropose() {
				if gens := w.ExactCapTxs(s.R, twin); gens != nil {
					ok := true
					for _, g := range gens {
						if err := twin.TxPool.AddExternalTxs(validation.InboundTx, g.Tx); err != nil {
							ok = false
						}
					}
					if ok {
						doTamper = true
						s.MoveClock()
						res := w.NextBlockBy(twin)
						rep.Count("exact_cap_proposals", 1)
						if len(res.Errs) > 0 {
							rep.Note("scenario %d stopped at step %d: exact-cap block refused (%v)", sc, i, res.Errs)
							w.beforeDistribute = nil
							break
						}
						lastOfKind[false] = res.Block
						doTamper = i%every == 0
					}
					for _, old := range twin.TxPool.VerifAll() {
						twin.TxPool.Remove(old)
					}
				}
			}
			res := s.Step()
			w.beforeDistribute = nil
			if len(res.Errs) > 0 {
				if e, ok := res.Errs["victim"]; ok && doTamper {
					rep.Violation("original-no-longer-insertable:"+ErrClass(e), fmt.Sprintf("after the rejected tampered insertions the honest original block %d is refused by the victim: %v", res.Block.Height(), e), DescribeBlock(res.Block))
				} else {
					rep.Note("scenario %d stopped at step %d: block refused (%v)", sc, i, res.Errs)
				}
				break
			}
			lastOfKind[res.Block.IsEmpty()] = res.Block
			if !res.Block.IsEmpty() {
				lastByProposer[string(res.Block.Header.ProposedHeader.ProposerPubKey)] = res.Block
			}
			for _, a := range w.SortedActors() {
				if w.View().AppState.ValidatorsCache.IsOnlineIdentity(a.Addr) {
					everOnline[a.Addr] = true
				}
			}
		}
		flushCounters(rep, w, s)
		w.Cleanup()
	}
}

type stateIdentity = stateIdentityAlias

func tryTampered(rep *verifutil.Report, w *World, victim *Replica, beforeP *victimSnap, orig, nb *types.Block, op, kind string) {
	before := *beforeP
	rep.Eval(1)
	rep.Count("op:"+op, 1)
	rep.Distinct(op, kind)
	_, e1 := victim.Chain.ValidateBlock(nb, nil, victim.Stats)
	e2 := victim.Chain.AddBlock(nb, nil, victim.Stats)
	if e1 == nil || e2 == nil {
		rep.Violation("tampered-accepted:"+op+":"+kind, fmt.Sprintf("block %d (%s) with tampering %q: ValidateBlock err=%v, AddBlock err=%v", orig.Height(), BlockKind(orig), op, e1, e2),
			map[string]interface{}{"original": DescribeBlock(orig), "operator": op})
		// the victim now sits on a bogus block; bring it back so that the run can continue
		if e2 == nil {
			victim.Chain.ResetTo(orig.Height() - 1)
		}
		*beforeP = snapVictim(victim) // the recovery itself rewrites the db: later operators compare with the new state
		return
	}
	rep.Count("rejected:"+ErrClass(e2), 1)
	// once more after the node has validated the honest original (what it does with every proposal
	// before the vote): the knowledge of the original must not let the variant through
	if _, e0 := victim.Chain.ValidateBlock(orig, nil, victim.Stats); e0 == nil {
		rep.Count("variants_offered_after_honest_validation", 1)
		_, e3 := victim.Chain.ValidateBlock(nb, nil, victim.Stats)
		e4 := victim.Chain.AddBlock(nb, nil, victim.Stats)
		if e3 == nil || e4 == nil {
			rep.Violation("tampered-accepted-after-honest-validation:"+op+":"+kind, fmt.Sprintf("block %d (%s) with tampering %q, offered right after the node validated the honest original: ValidateBlock err=%v, AddBlock err=%v (refused before: %v)", orig.Height(), BlockKind(orig), op, e3, e4, e2),
				map[string]interface{}{"original": DescribeBlock(orig), "operator": op})
			if e4 == nil {
				victim.Chain.ResetTo(orig.Height() - 1)
			}
			*beforeP = snapVictim(victim)
			return
		}
	}
	after := snapVictim(victim)
	if after != before {
		what := "db contents"
		switch {
		case after.head != before.head:
			what = "head"
		case after.root != before.root || after.idRoot != before.idRoot:
			what = "canonical roots"
		case after.versions != before.versions:
			what = "tree versions"
		}
		rep.Violation("rejection-left-trace:"+what+":"+op, fmt.Sprintf("rejected tampered block %d (%s, %q, err %v) changed the node's %s: before %+v after %+v", orig.Height(), BlockKind(orig), op, e2, what, before, after),
			map[string]interface{}{"original": DescribeBlock(orig), "operator": op})
	}
	if rep.Get("samples_taken") < 5 && rep.Get("op:"+op) == 1 && len(op) > 8 {
		rep.Count("samples_taken", 1)
		rep.Sample(map[string]interface{}{"block": DescribeBlock(orig), "operator": op, "ValidateBlock": fmt.Sprint(e1), "AddBlock": fmt.Sprint(e2)})
	}
}

// proposeAs lets a node with key `who` build a block on the victim's head with the real
// ProposeBlock (own VRF seed + proof, own coinbase, consistent roots).
func proposeAs(w *World, victim *Replica, who *Actor) *types.Block {
	db := CloneDB(victim.DB)
	tmp := &Replica{W: w, Owner: who, DB: db, Name: "tmp-" + who.Name, Observer: true}
	if err := tmp.boot(); err != nil {
		return nil
	}
	defer tmp.Dispose()
	_ = secstore.NewSecStore
	_ = crypto.Keccak256
	_ = time.Second
	return tmp.Chain.ProposeBlock(nil).Block
}
