package verifsim

import (
	"fmt"

	"github.com/idena-network/idena-go/blockchain/types"
	"github.com/idena-network/idena-go/blockchain/validation"
	"github.com/idena-network/idena-go/common"
	"github.com/idena-network/idena-go/core/appstate"
	dbm "github.com/tendermint/tm-db"
)

// Twin blocks: at one head and one frozen clock, block B1 carrying exactly one given
// transaction versus block B0 carrying none, both built by the real ProposeBlock of an
// observer replica whose mempool only the harness fills, both applied by the real
// validateBlock on private check states. Rewards are identical in both, so every
// difference between the two post-states is the effect of the transaction.

type TwinResult struct {
	B0, B1       *types.Block
	Post0, Post1 *appstate.AppState
	Receipts     types.TxReceipts
	Included     bool   // the tx made it into B1
	Admitted     bool   // the pool admitted it through normal validation
	Forced       bool   // it was force-put past pool admission
	Note         string
}

// AddTwin creates the observer replica (owned by Nodes[0], which stays online).
func (w *World) AddTwin() *Replica {
	owner := w.God
	if len(w.Nodes) > 0 {
		owner = w.Nodes[0]
	}
	t := w.NewReplica(owner, dbm.NewMemDB())
	t.Name = "twin"
	t.Observer = true
	return t
}

// Twin evaluates tx at the current head of t. force=true bypasses pool admission when the
// pool refuses the tx (a proposer is free to include anything that passes block validation).
func (w *World) Twin(t *Replica, tx *types.Transaction, force bool) (*TwinResult, error) {
	res := &TwinResult{}
	t.enter()
	if !t.CanPropose() {
		return nil, fmt.Errorf("twin owner cannot propose at this head")
	}
	for _, old := range t.TxPool.VerifAll() {
		t.TxPool.Remove(old)
	}
	p0 := t.Chain.ProposeBlock(nil)
	res.B0 = p0.Block
	if len(res.B0.Body.Transactions) != 0 {
		return nil, fmt.Errorf("twin: B0 is not tx-free")
	}
	err := t.TxPool.AddExternalTxs(validation.InboundTx, tx)
	if err == nil {
		res.Admitted = true
	} else if force {
		if e2 := t.TxPool.VerifForcePut(tx); e2 != nil {
			res.Note = "pool refused: " + ErrClass(err) + "; force-put refused: " + ErrClass(e2)
			return res, nil
		}
		res.Forced = true
		res.Note = "pool refused: " + ErrClass(err)
	} else {
		res.Note = "pool refused: " + ErrClass(err)
		return res, nil
	}
	p1 := t.Chain.ProposeBlock(nil)
	res.B1 = p1.Block
	t.TxPool.Remove(tx)
	for _, old := range t.TxPool.VerifAll() {
		t.TxPool.Remove(old)
	}
	if len(res.B1.Body.Transactions) == 1 && res.B1.Body.Transactions[0].Hash() == tx.Hash() {
		res.Included = true
	} else if len(res.B1.Body.Transactions) != 0 {
		return nil, fmt.Errorf("twin: B1 carries foreign txs")
	}
	if !res.Included {
		return res, nil
	}
	var e0, e1 error
	res.Post0, _, e0 = t.Chain.VerifValidateOnCheck(res.B0)
	res.Post1, res.Receipts, e1 = t.Chain.VerifValidateOnCheck(res.B1)
	if e0 != nil {
		return nil, fmt.Errorf("twin: B0 does not validate: %v", e0)
	}
	if e1 != nil {
		// the proposer built a block its own validator refuses: that is a C02 matter; report it
		return res, fmt.Errorf("twin: B1 built by ProposeBlock does not validate: %v", e1)
	}
	return res, nil
}

// touched lists the addresses a tx names (sender, recipient).
func touched(tx *types.Transaction) []common.Address {
	l := []common.Address{senderOf(tx)}
	if tx.To != nil {
		l = append(l, *tx.To)
	}
	return l
}
