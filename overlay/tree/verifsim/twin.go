package verifsim

import (
	"fmt"
	"math/big"

	"github.com/idena-network/idena-go/blockchain/attachments"
	"github.com/idena-network/idena-go/core/state"
	"github.com/idena-network/idena-go/verifutil"
	"github.com/idena-network/idena-go/vm/embedded"

	"github.com/idena-network/idena-go/blockchain/types"
	"github.com/idena-network/idena-go/blockchain/validation"
	"github.com/idena-network/idena-go/common"
	"github.com/idena-network/idena-go/core/appstate"
	dbm "github.com/tendermint/tm-db"
)

// Twin blocks: at one head and one frozen clock, block B1 carrying exactly one given
// transaction versus block B0 carrying none, both built by the real ProposeBlock of an
// observer replica whose mempool only the harness fills, both applied by the real
// validateBlock on private check states. Rewards are identical in both, so every
// difference between the two post-states is the effect of the transaction.

type TwinResult struct {
	B0, B1       *types.Block
	Post0, Post1 *appstate.AppState
	Receipts     types.TxReceipts
	Included     bool // the tx made it into B1
	Admitted     bool // the pool admitted it through normal validation
	Forced       bool // it was force-put past pool admission
	Note         string
}

// AddTwin creates the observer replica (owned by Nodes[0], which stays online).
func (w *World) AddTwin() *Replica {
	owner := w.God
	if len(w.Nodes) > 0 {
		owner = w.Nodes[0]
	}
	t := w.NewReplica(owner, dbm.NewMemDB())
	t.Name = "twin"
	t.Observer = true
	return t
}

// Twin evaluates tx at the current head of t. force=true bypasses pool admission when the
// pool refuses the tx (a proposer is free to include anything that passes block validation).
func (w *World) Twin(t *Replica, tx *types.Transaction, force bool) (*TwinResult, error) {
	res := &TwinResult{}
	t.enter()
	if !t.CanPropose() {
		return nil, fmt.Errorf("twin owner cannot propose at this head")
	}
	for _, old := range t.TxPool.VerifAll() {
		t.TxPool.Remove(old)
	}
	p0 := t.Chain.ProposeBlock(nil)
	res.B0 = p0.Block
	if len(res.B0.Body.Transactions) != 0 {
		return nil, fmt.Errorf("twin: B0 is not tx-free")
	}
	err := t.TxPool.AddExternalTxs(validation.InboundTx, tx)
	if err == nil {
		res.Admitted = true
	} else if force {
		if e2 := t.TxPool.VerifForcePut(tx); e2 != nil {
			res.Note = "pool refused: " + ErrClass(err) + "; force-put refused: " + ErrClass(e2)
			return res, nil
		}
		res.Forced = true
		res.Note = "pool refused: " + ErrClass(err)
	} else {
		res.Note = "pool refused: " + ErrClass(err)
		return res, nil
	}
	p1 := t.Chain.ProposeBlock(nil)
	res.B1 = p1.Block
	t.TxPool.Remove(tx)
	for _, old := range t.TxPool.VerifAll() {
		t.TxPool.Remove(old)
	}
	if len(res.B1.Body.Transactions) == 1 && res.B1.Body.Transactions[0].Hash() == tx.Hash() {
		res.Included = true
	} else if len(res.B1.Body.Transactions) != 0 {
		return nil, fmt.Errorf("twin: B1 carries foreign txs")
	}
	if !res.Included {
		return res, nil
	}
	var e0, e1 error
	res.Post0, _, e0 = t.Chain.VerifValidateOnCheck(res.B0)
	res.Post1, res.Receipts, e1 = t.Chain.VerifValidateOnCheck(res.B1)
	if e0 != nil {
		return nil, fmt.Errorf("twin: B0 does not validate: %v", e0)
	}
	if e1 != nil {
		// the proposer built a block its own validator refuses: that is a C02 matter; report it
		return res, fmt.Errorf("twin: B1 built by ProposeBlock does not validate: %v", e1)
	}
	return res, nil
}

// TwinAfter is Twin with a PREFIX: block B0 carries the prefix transactions only, block B1 the
// prefix followed by tx (the block order is the pool's: ascending account nonce - the caller
// gives tx a larger nonce than every prefix tx, e.g. same signer and consecutive nonces). The
// prefix is part of both blocks, so every difference between the two post-states is still the
// effect of tx alone - executed on the state the prefix left behind in the SAME block. With an
// empty prefix this is Twin.
func (w *World) TwinAfter(t *Replica, prefix []*types.Transaction, tx *types.Transaction, force bool) (*TwinResult, error) {
	if len(prefix) == 0 {
		return w.Twin(t, tx, force)
	}
	res := &TwinResult{}
	t.enter()
	if !t.CanPropose() {
		return nil, fmt.Errorf("twin owner cannot propose at this head")
	}
	clear := func() {
		for _, old := range t.TxPool.VerifAll() {
			t.TxPool.Remove(old)
		}
	}
	clear()
	for _, p := range prefix {
		if err := t.TxPool.AddExternalTxs(validation.InboundTx, p); err != nil {
			clear()
			res.Note = "pool refused a prefix tx: " + ErrClass(err)
			return res, nil
		}
	}
	res.B0 = t.Chain.ProposeBlock(nil).Block
	if len(res.B0.Body.Transactions) != len(prefix) {
		clear()
		res.Note = "prefix not included as a whole"
		return res, nil
	}
	err := t.TxPool.AddExternalTxs(validation.InboundTx, tx)
	if err == nil {
		res.Admitted = true
	} else if force {
		if e2 := t.TxPool.VerifForcePut(tx); e2 != nil {
			clear()
			res.Note = "pool refused: " + ErrClass(err) + "; force-put refused: " + ErrClass(e2)
			return res, nil
		}
		res.Forced = true
		res.Note = "pool refused: " + ErrClass(err)
	} else {
		clear()
		res.Note = "pool refused: " + ErrClass(err)
		return res, nil
	}
	res.B1 = t.Chain.ProposeBlock(nil).Block
	clear()
	n := len(res.B1.Body.Transactions)
	if n != len(prefix)+1 || res.B1.Body.Transactions[n-1].Hash() != tx.Hash() {
		return res, nil // tx left out (or not last): nothing to compare
	}
	for i, p := range prefix {
		if res.B0.Body.Transactions[i].Hash() != p.Hash() || res.B1.Body.Transactions[i].Hash() != p.Hash() {
			return res, nil
		}
	}
	res.Included = true
	var e0, e1 error
	res.Post0, _, e0 = t.Chain.VerifValidateOnCheck(res.B0)
	res.Post1, res.Receipts, e1 = t.Chain.VerifValidateOnCheck(res.B1)
	if e0 != nil {
		return nil, fmt.Errorf("twin: B0 (prefix only) does not validate: %v", e0)
	}
	if e1 != nil {
		return res, fmt.Errorf("twin: B1 built by ProposeBlock does not validate: %v", e1)
	}
	return res, nil
}

// touched lists the addresses a tx names (sender, recipient).
func touched(tx *types.Transaction) []common.Address {
	l := []common.Address{senderOf(tx)}
	if tx.To != nil {
		l = append(l, *tx.To)
	}
	return l
}

// TwinSeq is Twin for a SEQUENCE of transactions in one block (all must be included, in the
// pool's order - use one sender with consecutive nonces to fix it): block Bn carrying them
// versus block B0 carrying none.
func (w *World) TwinSeq(t *Replica, txs []*types.Transaction) (*TwinResult, error) {
	res := &TwinResult{}
	t.enter()
	if !t.CanPropose() {
		return nil, fmt.Errorf("twin owner cannot propose at this head")
	}
	clear := func() {
		for _, old := range t.TxPool.VerifAll() {
			t.TxPool.Remove(old)
		}
	}
	clear()
	res.B0 = t.Chain.ProposeBlock(nil).Block
	if len(res.B0.Body.Transactions) != 0 {
		return nil, fmt.Errorf("twin: B0 is not tx-free")
	}
	for _, tx := range txs {
		if err := t.TxPool.AddExternalTxs(validation.InboundTx, tx); err != nil {
			clear()
			res.Note = "pool refused: " + ErrClass(err)
			return res, nil
		}
	}
	res.B1 = t.Chain.ProposeBlock(nil).Block
	clear()
	if len(res.B1.Body.Transactions) != len(txs) {
		return res, nil
	}
	res.Included = true
	var e0, e1 error
	res.Post0, _, e0 = t.Chain.VerifValidateOnCheck(res.B0)
	res.Post1, res.Receipts, e1 = t.Chain.VerifValidateOnCheck(res.B1)
	if e0 != nil {
		return nil, fmt.Errorf("twin: B0 does not validate: %v", e0)
	}
	if e1 != nil {
		return res, fmt.Errorf("twin: B1 built by ProposeBlock does not validate: %v", e1)
	}
	return res, nil
}

// GasSweepSeqs looks for a contract call that succeeds at the current head and returns
// sequences [the same call with a gas limit k units short, a contract tx that succeeds] of one
// sender: a failure in the middle of an execution followed by a success in the same block.
// SweepSeq is one fail-then-success sequence of a signer O with a third party in between:
// [call with dest=Victim k gas units short, Send O->Victim, successful contract tx], and the
// baseline [Send O->Victim] alone.
type SweepSeq struct {
	Full   []*types.Transaction
	Base   []*types.Transaction
	Victim common.Address
	Signer common.Address
}

// GasSweepTriples is GasSweepSeqs with an ordinary transfer to the call's destination between
// the failing and the succeeding contract tx.
func (w *World) GasSweepTriples(r *verifutil.Rng, t *Replica, maxSeqs int) []*SweepSeq {
	var out []*SweepSeq
	st := w.View().AppState.State
	feeRate := st.FeePerGas()
	for _, pair := range w.gasSweep(r, t, maxSeqs, true) {
		short, ok := pair.txs[0], pair.txs[1]
		o := w.ByAddr[senderOf(short)]
		if o == nil {
			continue
		}
		victim := pair.dest
		amt := Dna(int64(r.Range(3, 40)))
		mid := SignedTx(o, types.SendTx, &victim, amt, new(big.Int).Add(new(big.Int).Mul(feeRate, big.NewInt(20000)), big.NewInt(1000)), nil, short.AccountNonce+1, short.Epoch, nil)
		okTx := SignedTx(o, ok.Type, ok.To, ok.Amount, ok.MaxFee, nil, short.AccountNonce+2, ok.Epoch, ok.Payload)
		baseMid := SignedTx(o, types.SendTx, &victim, amt, mid.MaxFee, nil, short.AccountNonce, short.Epoch, nil)
		out = append(out, &SweepSeq{Full: []*types.Transaction{short, mid, okTx}, Base: []*types.Transaction{baseMid}, Victim: victim, Signer: o.Addr})
	}
	return out
}

type sweepPair struct {
	txs  []*types.Transaction
	dest common.Address
}

func (w *World) GasSweepSeqs(r *verifutil.Rng, t *Replica, maxSeqs int) [][]*types.Transaction {
	var out [][]*types.Transaction
	for _, p := range w.gasSweep(r, t, maxSeqs, false) {
		out = append(out, p.txs)
	}
	return out
}

func (w *World) gasSweep(r *verifutil.Rng, t *Replica, maxSeqs int, knownDest bool) []sweepPair {
	v := w.View()
	st := v.AppState.State
	feeRate := st.FeePerGas()
	if feeRate.Sign() == 0 {
		return nil
	}
	var out []sweepPair
	for _, c := range contractsByWorld[w] {
		if len(out) >= maxSeqs {
			break
		}
		if st.GetCodeHash(c.Addr) == nil || st.GetBalance(c.Owner.Addr).Cmp(Dna(100)) < 0 {
			continue
		}
		dest := w.anyAddr(r)
		if knownDest {
			// a third party with an account of its own
			v := w.pickActor(r, func(a *Actor, _ state.Identity) bool {
				return a != c.Owner && st.GetBalance(a.Addr).Sign() > 0 && st.GetCodeHash(a.Addr) == nil
			})
			if v == nil {
				continue
			}
			dest = v.Addr
		}
		for _, att := range []*attachments.CallContractAttachment{
			attachments.CreateCallContractAttachment("transfer", dest.Bytes(), big.NewInt(int64(r.Range(1, 1000))).Bytes()),
			attachments.CreateCallContractAttachment("add", dest.Bytes()),
			attachments.CreateCallContractAttachment("send", dest.Bytes(), Dna(1).Bytes()),
		} {
			pl, _ := att.ToBytes()
			nonce := w.StateNonce(c.Owner)
			ep := st.Epoch()
			pay := Dna(int64(r.Range(1, 5)))
			mk := func(limit int64, n uint32) *types.Transaction {
				// MaxFee = tx fee + limit * feePerGas; the fee depends on the tx size, which depends on the
				// byte length of MaxFee: iterate to the fixed point
				maxFee := Dna(1)
				var tx *types.Transaction
				for i := 0; i < 4; i++ {
					tx = SignedTx(c.Owner, types.CallContractTx, &c.Addr, pay, maxFee, nil, n, ep, pl)
					want := new(big.Int).Add(w.FeeFor(tx), new(big.Int).Mul(feeRate, big.NewInt(limit)))
					if want.Cmp(maxFee) == 0 {
						break
					}
					maxFee = want
				}
				return tx
			}
			probe := mk(50000, nonce)
			tr, err := w.Twin(t, probe, false)
			if err != nil || tr == nil || !tr.Included || len(tr.Receipts) != 1 || !tr.Receipts[0].Success {
				continue
			}
			g := int64(tr.Receipts[0].GasUsed)
			minStake := new(big.Int).Mul(feeRate, big.NewInt(3000000))
			datt := attachments.CreateDeployContractAttachment(embedded.MultisigContract, nil, nil, []byte{2}, []byte{1})
			dpl, _ := datt.ToBytes()
			for _, k := range []int64{1, int64(r.Range(2, 29)), 30, 31, int64(r.Range(32, 200)), g / 2} {
				if k >= g || len(out) >= maxSeqs {
					continue
				}
				short := mk(g-k, nonce)
				ok := SignedTx(c.Owner, types.DeployContractTx, nil, new(big.Int).Add(minStake, big.NewInt(int64(k))), new(big.Int).Mul(feeRate, big.NewInt(200000)), nil, nonce+1, ep, dpl)
				out = append(out, sweepPair{[]*types.Transaction{short, ok}, dest})
			}
			break
		}
	}
	return out
}
