package verifsim

import (
	"time"

	"github.com/idena-network/idena-go/blockchain/types"
	"github.com/idena-network/idena-go/blockchain/validation"
	"github.com/idena-network/idena-go/core/state"
	"github.com/idena-network/idena-go/verifutil"
)

// Scenario drives a world: per step it submits generated transactions (well-formed and
// hostile), moves the virtual clock (also across ceremony boundaries and by days) and
// produces one block that every replica receives.
type Scenario struct {
	W          *World
	R          *verifutil.Rng
	Hostile    int // percent of hostile tx variants
	MaxTxs     int // txs generated per step: 0..MaxTxs
	EmptyPct   int
	PartialPct int // chance (percent) that a replica does NOT get a submitted tx (gossip loss)
	// hooks
	OnSubmit func(g *Gen, err error)
	Step_    int
	Included map[string]int // kind -> included count
	kinds    map[[32]byte]string
}

func NewScenario(w *World, r *verifutil.Rng) *Scenario {
	return &Scenario{W: w, R: r, Hostile: 25, MaxTxs: 6, EmptyPct: 8, PartialPct: 10, Included: map[string]int{}, kinds: map[[32]byte]string{}}
}

// SubmitGen offers a generated tx to the replicas' pools.
func (s *Scenario) SubmitGen(g *Gen) error {
	if g == nil || g.Tx == nil {
		return nil
	}
	w := s.W
	s.kinds[g.Tx.Hash()] = g.Kind
	var first error
	got := false
	for i, r := range w.Replicas {
		if !r.Alive || r.Observer {
			continue
		}
		if i > 0 && s.R.Intn(100) < s.PartialPct {
			continue
		}
		err := r.TxPool.AddExternalTxs(validation.InboundTx, g.Tx)
		if !got {
			first, got = err, true
		}
	}
	if s.OnSubmit != nil {
		s.OnSubmit(g, first)
	}
	return first
}

// MoveClock advances virtual time: normally 10-40 s; when the next validation is far away it
// occasionally jumps right before the flip lottery (a block may be arbitrarily later than
// its parent, so this is a legal history).
func (s *Scenario) MoveClock() {
	w := s.W
	st := w.View().AppState.State
	now := w.Now()
	ht := w.HeadTime()
	if now.Before(ht) {
		now = ht
	}
	if st.ValidationPeriod() == state.NonePeriod {
		nvt := st.NextValidationTime()
		lead := nvt.Sub(now)
		if lead > 30*time.Minute && s.R.Intn(25) == 0 {
			target := nvt.Add(-w.Opt.FlipLottery - time.Duration(s.R.Range(30, 400))*time.Second)
			setClock(target)
			w.Stats["clock_jumps"]++
			return
		}
	}
	setClock(now.Add(time.Duration(s.R.Range(10, 40)) * time.Second))
}

// Step = submit txs, move the clock, produce and distribute one block.
func (s *Scenario) Step() *BlockResult {
	s.Step_++
	n := s.R.Intn(s.MaxTxs + 1)
	for k := 0; k < n; k++ {
		s.SubmitGen(s.W.RandomTx(s.R, s.Hostile))
	}
	s.MoveClock()
	res := s.W.NextBlock(s.EmptyPct)
	if len(res.Errs) == 0 {
		for _, tx := range res.Block.Body.Transactions {
			k := s.kinds[tx.Hash()]
			if k == "" {
				k = TxName(tx.Type) + "/other"
			}
			s.Included[k]++
			s.Included["type:"+TxName(tx.Type)]++
		}
	}
	return res
}

func flagsOf(b *types.Block) types.BlockFlag { return b.Header.Flags() }
