// Package verifsim is injected by /verif at build time (Go -overlay). It is the
// multi-replica chain simulator (engine E1 of /verif/DESIGN.md): replicas are the object
// graph node.NewNodeWithInjections builds minus libp2p, started with the call sequence of
// node.StartWithHeight, driven by a virtual clock and a seeded scenario generator. All
// oracles observe the REAL blockchain / appstate / mempool / ceremony code.
package verifsim

import (
	"crypto/ecdsa"
	"encoding/binary"
	"fmt"
	"math/big"
	"os"
	"sort"
	"time"

	"github.com/idena-network/idena-go/blockchain"
	"github.com/idena-network/idena-go/blockchain/attachments"
	"github.com/idena-network/idena-go/blockchain/types"
	"github.com/idena-network/idena-go/blockchain/validation"
	"github.com/idena-network/idena-go/common"
	"github.com/idena-network/idena-go/common/eventbus"
	"github.com/idena-network/idena-go/config"
	"github.com/idena-network/idena-go/core/appstate"
	"github.com/idena-network/idena-go/core/mempool"
	"github.com/idena-network/idena-go/core/state"
	"github.com/idena-network/idena-go/core/upgrade"
	"github.com/idena-network/idena-go/crypto"
	"github.com/idena-network/idena-go/ipfs"
	"github.com/idena-network/idena-go/keystore"
	"github.com/idena-network/idena-go/log"
	"github.com/idena-network/idena-go/secstore"
	"github.com/idena-network/idena-go/stats/collector"
	"github.com/idena-network/idena-go/subscriptions"
	"github.com/idena-network/idena-go/verifclock"
	"github.com/idena-network/idena-go/verifutil"
	dbm "github.com/tendermint/tm-db"
)

func init() {
	log.Root().SetHandler(log.DiscardHandler())
}

// Dna converts whole coins to the smallest unit.
func Dna(n int64) *big.Int { return new(big.Int).Mul(big.NewInt(n), common.DnaBase) }

// DeriveKey returns a private key that is a pure function of (seed, role, i).
// (ecdsa.GenerateKey with a seeded reader is deliberately not reproducible.)
func DeriveKey(seed uint64, role string, i int) *ecdsa.PrivateKey {
	for ctr := 0; ; ctr++ {
		b := make([]byte, 8+len(role)+8+4)
		binary.LittleEndian.PutUint64(b, seed)
		copy(b[8:], role)
		binary.LittleEndian.PutUint64(b[8+len(role):], uint64(i))
		binary.LittleEndian.PutUint32(b[16+len(role):], uint32(ctr))
		k, err := crypto.ToECDSA(crypto.Keccak256(b))
		if err == nil {
			return k
		}
	}
}

type Actor struct {
	Name string
	Key  *ecdsa.PrivateKey
	Addr common.Address
	Pub  []byte
}

func NewActor(seed uint64, role string, i int) *Actor {
	k := DeriveKey(seed, role, i)
	return &Actor{Name: fmt.Sprintf("%s%d", role, i), Key: k, Addr: crypto.PubkeyToAddress(k.PublicKey), Pub: crypto.FromECDSAPub(&k.PublicKey)}
}

// Options of one scenario world.
type Options struct {
	Seed      uint64
	Version   config.ConsensusVerson // default V12 (current mainnet rules)
	NNodes    int                    // node identities that own a replica and can propose (besides god)
	NIdent    int                    // further genesis identities (no replica)
	NAccounts int                    // plain funded accounts
	// small ranges so that identity-update / snapshot blocks are frequent
	StatusSwitchRange, DelegationSwitchRange, DiscriminationSwitchRange, SnapshotRange uint64
	FirstCeremonyIn                                                                    time.Duration // genesis time -> first validation
	ValidationInterval                                                                 time.Duration // 0 = NormalizedEpochDuration (weekday logic)
	FlipLottery, ShortSession, LongSession                                             time.Duration
	StartTime                                                                          time.Time
	GodIsIdentity                                                                      bool
	ZeroStakes                                                                         bool // genesis identities without stake
	AllValidated                                                                       bool // genesis identities are all Newbie/Verified/Human
	EpochNoKills                                                                       bool // synthetic epochs never take a validated status away (no stake burnt)
	EpochSuspends                                                                      bool // with EpochNoKills: Suspended / Zombie outcomes are kept (nobody is killed, but shard balancing sees suspended identities)
	Epoch                                                                              EpochMode
	MempoolCfg                                                                         *config.Mempool
	Tweak                                                                              func(c *config.ConsensusConf)
	// GenesisTweak pre-populates the state a replica generates its genesis block from (called on
	// every replica that boots on a database without a chain, before InitializeChain): what it
	// writes becomes part of the genesis state, e.g. a network that already consists of two shards.
	// Must be a pure function of the world.
	GenesisTweak func(w *World, st *state.StateDB)
}

type EpochMode int

const (
	EpochSynthetic EpochMode = iota // deterministic synthetic epoch function (see epoch.go)
	EpochReal                       // real ValidationCeremony objects
)

func (o *Options) defaults() {
	if o.Version == 0 {
		o.Version = config.ConsensusV12
	}
	if o.StatusSwitchRange == 0 {
		o.StatusSwitchRange = 5
	}
	if o.DelegationSwitchRange == 0 {
		o.DelegationSwitchRange = 7
	}
	if o.DiscriminationSwitchRange == 0 {
		o.DiscriminationSwitchRange = 6
	}
	if o.SnapshotRange == 0 {
		o.SnapshotRange = 11
	}
	if o.FirstCeremonyIn == 0 {
		o.FirstCeremonyIn = 40 * time.Minute
	}
	if o.FlipLottery == 0 {
		o.FlipLottery = 2 * time.Minute
	}
	if o.ShortSession == 0 {
		o.ShortSession = 1 * time.Minute
	}
	if o.LongSession == 0 {
		o.LongSession = 2 * time.Minute
	}
	if o.StartTime.IsZero() {
		// a Monday 09:00:00 UTC; scenarios shift it
		o.StartTime = time.Date(2023, 8, 7, 9, 0, 0, 0, time.UTC)
	}
}

type World struct {
	Opt              Options
	Rng              *verifutil.Rng
	Cons             *config.ConsensusConf
	Val              *config.ValidationConfig
	God              *Actor
	Nodes            []*Actor // Nodes[i] owns Replicas[i+1]
	Idents           []*Actor
	Accounts         []*Actor
	ByAddr           map[common.Address]*Actor
	Alloc            map[common.Address]config.GenesisAllocation
	Replicas         []*Replica     // Replicas[0] is god's
	Blocks           []*types.Block // canonical chain produced so far (index 0 = height 2)
	Genesis          int64
	dirSeq           int
	Stats            map[string]int
	Certs            map[common.Hash]*types.BlockCert // real quorum certificates of canonical blocks (when a quorum of held keys exists)
	ViewOverride     *Replica                         // the generator looks at this replica's head state instead of replica 0
	beforePropose    func(p *Replica)
	beforeDistribute func(b *types.Block, p *Replica)
	// OnBlock observers run after a block was inserted into every replica
	OnBlock []func(w *World, b *types.Block)
	scratch []*Replica // scratch replicas booted by tmpReplica (disposed by Cleanup)
}

// ConsensusFor returns a private copy of the consensus config of a version.
func ConsensusFor(ver config.ConsensusVerson) *config.ConsensusConf {
	c := *config.ConsensusVersions[ver]
	c.BlockReward = new(big.Int).Set(c.BlockReward)
	c.FinalCommitteeReward = new(big.Int).Set(c.FinalCommitteeReward)
	return &c
}

func NewWorld(opt Options) *World {
	opt.defaults()
	w := &World{Opt: opt, Rng: verifutil.NewRng(opt.Seed, 0x5157), ByAddr: map[common.Address]*Actor{}, Stats: map[string]int{}}
	c := ConsensusFor(opt.Version)
	c.StatusSwitchRange = opt.StatusSwitchRange
	c.DelegationSwitchRange = opt.DelegationSwitchRange
	c.DiscriminationSwitchRange = opt.DiscriminationSwitchRange
	c.SnapshotRange = opt.SnapshotRange
	c.Automine = true
	c.MigrationTimeout = 0
	if opt.Tweak != nil {
		opt.Tweak(c)
	}
	w.Cons = c
	w.Val = &config.ValidationConfig{
		ValidationInterval:   opt.ValidationInterval,
		FlipLotteryDuration:  opt.FlipLottery,
		ShortSessionDuration: opt.ShortSession,
		LongSessionDuration:  opt.LongSession,
	}
	w.God = NewActor(opt.Seed, "god", 0)
	w.add(w.God)
	for i := 0; i < opt.NNodes; i++ {
		w.Nodes = append(w.Nodes, w.add(NewActor(opt.Seed, "node", i)))
	}
	for i := 0; i < opt.NIdent; i++ {
		w.Idents = append(w.Idents, w.add(NewActor(opt.Seed, "id", i)))
	}
	for i := 0; i < opt.NAccounts; i++ {
		w.Accounts = append(w.Accounts, w.add(NewActor(opt.Seed, "acc", i)))
	}
	w.Genesis = opt.StartTime.Unix()
	verifclock.Arm(opt.StartTime)

	// genesis allocation
	w.Alloc = map[common.Address]config.GenesisAllocation{}
	r := verifutil.NewRng(opt.Seed, 0xa110c)
	stake := func() *big.Int {
		if opt.ZeroStakes {
			return nil
		}
		// spread around typical discrimination thresholds
		return new(big.Int).Add(Dna(int64(r.Range(1, 3000))), big.NewInt(int64(r.Intn(1000000))))
	}
	if opt.GodIsIdentity {
		w.Alloc[w.God.Addr] = config.GenesisAllocation{Balance: Dna(1000000), Stake: Dna(5000), State: uint8(state.Human)}
	} else {
		w.Alloc[w.God.Addr] = config.GenesisAllocation{Balance: Dna(1000000)}
	}
	for _, n := range w.Nodes {
		w.Alloc[n.Addr] = config.GenesisAllocation{Balance: Dna(50000), Stake: stake(), State: uint8([]state.IdentityState{state.Verified, state.Human}[r.Intn(2)])}
	}
	sts := []state.IdentityState{state.Newbie, state.Verified, state.Human, state.Verified, state.Human, state.Newbie, state.Suspended, state.Zombie, state.Candidate}
	if opt.AllValidated {
		sts = []state.IdentityState{state.Newbie, state.Verified, state.Human, state.Verified, state.Human}
	}
	for _, a := range w.Idents {
		w.Alloc[a.Addr] = config.GenesisAllocation{Balance: Dna(int64(r.Range(10, 5000))), Stake: stake(), State: uint8(sts[r.Intn(len(sts))])}
	}
	for _, a := range w.Accounts {
		w.Alloc[a.Addr] = config.GenesisAllocation{Balance: Dna(int64(r.Range(100, 20000)))}
	}
	// replicas
	w.NewReplica(w.God, dbm.NewMemDB())
	for _, n := range w.Nodes {
		w.NewReplica(n, dbm.NewMemDB())
	}
	return w
}

func (w *World) add(a *Actor) *Actor { w.ByAddr[a.Addr] = a; return a }

// AddActor registers a fresh actor created during the scenario (invitees, candidates…).
func (w *World) AddActor(role string, i int) *Actor { return w.add(NewActor(w.Opt.Seed, role, i)) }

func (w *World) Now() time.Time { return verifclock.Now() }

// ------------------------------------------------------------------ replica

type Replica struct {
	W        *World
	Name     string
	Owner    *Actor
	DB       dbm.DB
	Cfg      *config.Config
	Bus      eventbus.Bus
	AppState *appstate.AppState
	SecStore *secstore.SecStore
	TxPool   *mempool.TxPool
	Offline  *blockchain.OfflineDetector
	Upgrader *upgrade.Upgrader
	Chain    *blockchain.Blockchain
	Ipfs     ipfs.Proxy
	Stats    collector.StatsCollector
	Epoch    *EpochDriver // epoch mode glue (synthetic or real ceremony)
	Restarts int
	Alive    bool
	Observer bool           // follows the chain but never proposes and gets no gossip (harness-controlled pool)
	Zone     *time.Location // host time zone of this node (nil = leave time.Local alone)
	disposed bool
}

// enter makes r the "current host": its time zone becomes the process-local zone. Replicas
// run sequentially in the harness goroutine, so this emulates nodes in different zones.
func (r *Replica) enter() {
	if r.Zone != nil {
		time.Local = r.Zone
	}
}

func (w *World) scratchDir(tag string) string {
	w.dirSeq++
	d := fmt.Sprintf("./vsim-%d-%s-%d", w.Opt.Seed, tag, w.dirSeq)
	os.MkdirAll(d, 0755)
	return d
}

func (w *World) nodeConfig(dataDir string) *config.Config {
	mp := w.Opt.MempoolCfg
	if mp == nil {
		mp = config.GetDefaultMempoolConfig()
	}
	return &config.Config{
		DataDir:   dataDir,
		Network:   0x99,
		Consensus: w.Cons, // validation.SetAppConfig is process-global: all replicas share one consensus config
		GenesisConf: &config.GenesisConf{
			Alloc:             w.Alloc,
			GodAddress:        w.God.Addr,
			FirstCeremonyTime: w.Genesis + int64(w.Opt.FirstCeremonyIn/time.Second),
		},
		Validation:       w.Val,
		Blockchain:       &config.BlockchainConfig{},
		OfflineDetection: config.GetDefaultOfflineDetectionConfig(),
		Mempool:          mp,
		Sync:             &config.SyncConfig{},
		IpfsConf:         &config.IpfsConfig{},
	}
}

// NewReplica builds the object graph on db and runs the start-up sequence of
// node.StartWithHeight (InitializeChain -> appState.Initialize(head) [fallback 0] ->
// EnsureIntegrity -> txpool.Initialize -> epoch glue).
func (w *World) NewReplica(owner *Actor, db dbm.DB) *Replica {
	r := &Replica{W: w, Owner: owner, DB: db, Name: owner.Name}
	if err := r.boot(); err != nil {
		panic(fmt.Sprintf("verifsim: replica %s failed to boot: %v", owner.Name, err))
	}
	w.Replicas = append(w.Replicas, r)
	return r
}

// Boot (re)creates every in-memory object on the replica's surviving DB.
func (r *Replica) boot() error {
	r.enter()
	w := r.W
	dir := w.scratchDir(r.Name)
	r.Cfg = w.nodeConfig(dir)
	validation.SetAppConfig(r.Cfg)
	r.Bus = eventbus.New()
	as, err := appstate.NewAppState(r.DB, r.Bus)
	if err != nil {
		return err
	}
	r.AppState = as
	r.SecStore = secstore.NewSecStore()
	r.SecStore.AddKey(crypto.FromECDSA(r.Owner.Key))
	r.Stats = collector.NewStatsCollector()
	r.TxPool = mempool.NewTxPool(as, r.Bus, r.Cfg, r.Stats)
	r.Offline = blockchain.NewOfflineDetector(r.Cfg, r.DB, as, r.SecStore, r.Bus)
	ks := keystore.NewKeyStore(dir+"/keystore", keystore.LightScryptN, keystore.LightScryptP)
	sm, err := subscriptions.NewManager(dir)
	if err != nil {
		return err
	}
	r.Upgrader = upgrade.NewUpgrader(r.Cfg, as, r.DB)
	r.Ipfs = w.sharedIpfs()
	r.Chain = blockchain.NewBlockchain(r.Cfg, r.DB, r.TxPool, as, r.Ipfs, r.SecStore, r.Bus, r.Offline, ks, sm, r.Upgrader)
	r.Epoch = newEpochDriver(r)
	if w.Opt.GenesisTweak != nil && r.Chain.GetHead() == nil {
		w.Opt.GenesisTweak(w, as.State)
	}
	if err := r.Chain.InitializeChain(); err != nil {
		return err
	}
	if err := as.Initialize(r.Chain.Head.Height()); err != nil {
		if err := as.Initialize(0); err != nil {
			return fmt.Errorf("cannot initialize state: %w", err)
		}
	}
	if err := r.Chain.EnsureIntegrity(); err != nil {
		return fmt.Errorf("failed to recover blockchain: %w", err)
	}
	r.TxPool.Initialize(r.Chain.Head, r.SecStore.GetAddress(), false)
	r.Epoch.initialize()
	r.Alive = true
	return nil
}

// Restart throws the object graph away and rebuilds it on the surviving DB.
func (r *Replica) Restart() error {
	r.Restarts++
	r.Alive = false
	return r.boot()
}

var theIpfs ipfs.Proxy

// every replica shares one in-memory content store (contents are addressed by hash, so
// sharing cannot change what a node computes; it only spares us re-adding block bodies)
func (w *World) sharedIpfs() ipfs.Proxy {
	if theIpfs == nil {
		theIpfs = ipfs.NewMemoryIpfsProxy()
	}
	return theIpfs
}

func (r *Replica) Head() *types.Header { return r.Chain.Head }

// CanPropose mirrors blockchain.checkIfProposer on the replica's canonical state.
func (r *Replica) CanPropose() bool {
	vc := r.AppState.ValidatorsCache
	return vc.IsOnlineIdentity(r.Owner.Addr) || r.AppState.State.GodAddress() == r.Owner.Addr && vc.OnlineSize() == 0
}

// ------------------------------------------------------------------ block production

type BlockResult struct {
	Block    *types.Block
	Proposer *Replica
	Errs     map[string]error // replica name -> error of the receiving path
}

// Propose lets replica p build a block from its own mempool (virtual clock frozen).
func (w *World) Propose(p *Replica) *types.BlockProposal {
	p.enter()
	return p.Chain.ProposeBlock(nil)
}

// Receive runs what a node runs for a proposed block it got from the network, up to and
// including insertion: signature / structural validity, header, offline-vote flags, upgrade
// bits, full validation, AddBlock.
func (r *Replica) Receive(prop *types.BlockProposal) error {
	r.enter()
	if !prop.IsValid() {
		return fmt.Errorf("proposal IsValid() == false")
	}
	b := prop.Block
	if err := r.Chain.ValidateHeader(b.Header, r.Chain.Head); err != nil {
		return fmt.Errorf("ValidateHeader: %w", err)
	}
	if err := r.Offline.ValidateBlock(r.Chain.Head, b); err != nil {
		return fmt.Errorf("offline.ValidateBlock: %w", err)
	}
	if err := r.Upgrader.ValidateBlock(b); err != nil {
		return fmt.Errorf("upgrader.ValidateBlock: %w", err)
	}
	if _, err := r.Chain.ValidateBlock(b, nil, r.Stats); err != nil {
		return fmt.Errorf("ValidateBlock: %w", err)
	}
	return r.AddBlock(b)
}

func (r *Replica) AddBlock(b *types.Block) error {
	r.enter()
	if err := r.Chain.AddBlock(b, nil, r.Stats); err != nil {
		return fmt.Errorf("AddBlock: %w", err)
	}
	r.addCert(b)
	return nil
}

// addCert stores a single-vote certificate signed by god, as upstream's test chain does; it
// is only bookkeeping for code that looks certificates up (fork bundles build their own).
func (r *Replica) addCert(b *types.Block) {
	if c, ok := r.W.Certs[b.Hash()]; ok {
		r.Chain.WriteCertificate(b.Header.Hash(), c, true)
		return
	}
	vote := &types.Vote{Header: &types.VoteHeader{Round: b.Height(), Step: 1, ParentHash: b.Header.ParentHash(), VotedHash: b.Header.Hash()}}
	h := crypto.SignatureHash(vote)
	sig, _ := crypto.Sign(h[:], r.W.God.Key)
	vote.Signature = sig
	cert := types.FullBlockCert{Votes: []*types.Vote{vote}}
	r.Chain.WriteCertificate(b.Header.Hash(), cert.Compress(), true)
}

// Eligible returns the live replicas that may propose on the current head.
func (w *World) Eligible() []*Replica {
	var out []*Replica
	for _, r := range w.Replicas {
		if r.Alive && !r.Observer && r.CanPropose() {
			out = append(out, r)
		}
	}
	return out
}

func setClock(t time.Time) { verifclock.Set(t) }

// Tick advances the virtual clock.
func (w *World) Tick(d time.Duration) { verifclock.Advance(d) }

// HeadTime is the timestamp of the canonical head.
func (w *World) HeadTime() time.Time { return time.Unix(w.Replicas[0].Head().Time(), 0) }

// NextBlock produces one block (proposed by a PRNG-chosen eligible replica, or empty with
// probability emptyPct) and inserts it into every live replica through the receiving path.
func (w *World) NextBlock(emptyPct int) *BlockResult {
	res := &BlockResult{Errs: map[string]error{}}
	if w.Certs == nil {
		w.Certs = map[common.Hash]*types.BlockCert{}
	}
	certify := func(b *types.Block) {
		v := w.View()
		if c, ok := w.MakeCert(v, v.AppState.ValidatorsCache, v.Head(), b, types.Final); ok {
			w.Certs[b.Hash()] = c.Compress()
			w.Stats["quorum_certs"]++
		} else {
			w.Stats["blocks_without_quorum_cert"]++
		}
	}
	el := w.Eligible()
	if len(el) == 0 || w.Rng.Intn(100) < emptyPct {
		// an empty block: each replica generates and compares by hash; produce it on a random one
		src := w.liveReplica()
		src.enter()
		b := src.Chain.GenerateEmptyBlock()
		res.Block = b
		certify(b)
		if w.beforeDistribute != nil {
			w.beforeDistribute(b, nil)
		}
		// empty block time = parent + 20s; keep the clock at or after it
		if t := time.Unix(b.Header.Time(), 0); w.Now().Before(t) {
			verifclock.Set(t)
		}
		for _, r := range w.Replicas {
			if !r.Alive {
				continue
			}
			// every node generates the empty block of the round itself; what is agreed on is its hash
			blk := b
			if r != src {
				r.enter()
				own := r.Chain.GenerateEmptyBlock()
				if own.Hash() != b.Hash() {
					res.Errs[r.Name] = fmt.Errorf("AddBlock: the empty block this node generates for height %d has another hash than the one generated by %s", b.Height(), src.Name)
					continue
				}
				blk = wireBlock(b)
			}
			if err := r.AddBlock(blk); err != nil {
				res.Errs[r.Name] = err
			}
		}
		w.Stats["empty_blocks"]++
	} else {
		p := el[w.Rng.Intn(len(el))]
		res.Proposer = p
		if w.beforePropose != nil {
			w.beforePropose(p)
		}
		prop := w.Propose(p)
		res.Block = prop.Block
		certify(prop.Block)
		if w.beforeDistribute != nil {
			w.beforeDistribute(prop.Block, p)
		}
		// the proposer inserts its own block last, like the engine does after consensus
		for _, r := range w.Replicas {
			if !r.Alive || r == p {
				continue
			}
			if err := r.Receive(wireProposal(prop)); err != nil {
				res.Errs[r.Name] = err
			}
		}
		if err := p.Receive(prop); err != nil {
			res.Errs[p.Name] = err
		}
		w.Stats["proposed_blocks"]++
		w.Stats["txs_in_blocks"] += len(prop.Block.Body.Transactions)
	}
	if len(res.Errs) == 0 {
		w.Blocks = append(w.Blocks, res.Block)
		for _, f := range w.OnBlock {
			f(w, res.Block)
		}
	}
	return res
}

// NextBlockBy lets a given replica (e.g. an observer whose pool the harness filled) propose
// the next block; every live replica receives it through the normal path.
func (w *World) NextBlockBy(p *Replica) *BlockResult {
	res := &BlockResult{Errs: map[string]error{}, Proposer: p}
	prop := w.Propose(p)
	res.Block = prop.Block
	v := w.View()
	if c, ok := w.MakeCert(v, v.AppState.ValidatorsCache, v.Head(), prop.Block, types.Final); ok {
		w.Certs[prop.Block.Hash()] = c.Compress()
	}
	if w.beforeDistribute != nil {
		w.beforeDistribute(prop.Block, p)
	}
	for _, r := range w.Replicas {
		if !r.Alive || r == p {
			continue
		}
		if err := r.Receive(wireProposal(prop)); err != nil {
			res.Errs[r.Name] = err
		}
	}
	if err := p.Receive(prop); err != nil {
		res.Errs[p.Name] = err
	}
	w.Stats["proposed_blocks"]++
	w.Stats["txs_in_blocks"] += len(prop.Block.Body.Transactions)
	if len(res.Errs) == 0 {
		w.Blocks = append(w.Blocks, res.Block)
		for _, f := range w.OnBlock {
			f(w, res.Block)
		}
	}
	return res
}

func (w *World) liveReplica() *Replica {
	var l []*Replica
	for _, r := range w.Replicas {
		if r.Alive {
			l = append(l, r)
		}
	}
	return l[w.Rng.Intn(len(l))]
}

// Submit offers a tx to the mempools of all live replicas (as gossip would), returns the
// error of the first replica (they validate against the same head).
func (w *World) Submit(tx *types.Transaction) error {
	var first error
	for i, r := range w.Replicas {
		if !r.Alive || r.Observer {
			continue
		}
		err := r.TxPool.AddExternalTxs(validation.InboundTx, tx)
		if i == 0 {
			first = err
		}
	}
	return first
}

// Prologue brings the node identities online: every node submits an OnlineStatusTx, then
// blocks are produced until the status switch was applied by an identity-update block.
func (w *World) Prologue() error {
	for _, n := range w.Nodes {
		tx := w.Tx(n, types.OnlineStatusTx, nil, nil, attachments.CreateOnlineStatusAttachment(true))
		if err := w.Submit(tx); err != nil {
			return fmt.Errorf("prologue: online tx of %s refused: %w", n.Name, err)
		}
	}
	for i := 0; i < int(w.Cons.StatusSwitchRange)*2+2; i++ {
		w.Tick(12 * time.Second)
		res := w.NextBlock(0)
		for n, e := range res.Errs {
			return fmt.Errorf("prologue: block %d refused by %s: %w", res.Block.Height(), n, e)
		}
		if len(w.Nodes) == 0 || w.View().AppState.ValidatorsCache.IsOnlineIdentity(w.Nodes[0].Addr) {
			return nil
		}
	}
	return fmt.Errorf("prologue: nodes did not come online")
}

// SortedActors returns all actors in a deterministic order.
func (w *World) SortedActors() []*Actor {
	var l []*Actor
	for _, a := range w.ByAddr {
		l = append(l, a)
	}
	sort.Slice(l, func(i, j int) bool { return l[i].Name < l[j].Name })
	return l
}

// Cleanup removes scratch directories of this world.
func (w *World) Cleanup() {
	// give the memory of the scratch replicas of this world back (see Replica.Dispose); the
	// registered replicas may still be touched by node goroutines of harnesses that run them live
	for _, r := range w.scratch {
		r.Dispose()
	}
	w.scratch = nil
	for i := 1; i <= w.dirSeq; i++ {
		// names are vsim-<seed>-<tag>-<n>; remove by glob
	}
	m, _ := os.ReadDir(".")
	pref := fmt.Sprintf("vsim-%d-", w.Opt.Seed)
	for _, e := range m {
		if len(e.Name()) > len(pref) && e.Name()[:len(pref)] == pref {
			os.RemoveAll(e.Name())
		}
	}
}

// wireProposal is what another node holds after the proposal travelled over the network: a
// fresh object decoded from the proposer's encoding (no memoised hashes, no shared pointers).
func wireProposal(p *types.BlockProposal) *types.BlockProposal {
	data, err := p.ToBytes()
	if err != nil {
		panic(fmt.Sprintf("verifsim: proposal does not encode: %v", err))
	}
	c := new(types.BlockProposal)
	if err := c.FromBytes(data); err != nil {
		panic(fmt.Sprintf("verifsim: proposal does not decode from its own encoding: %v", err))
	}
	return c
}

func wireBlock(b *types.Block) *types.Block {
	data, err := b.ToBytes()
	if err != nil {
		panic(fmt.Sprintf("verifsim: block does not encode: %v", err))
	}
	c := new(types.Block)
	if err := c.FromBytes(data); err != nil {
		panic(fmt.Sprintf("verifsim: block does not decode from its own encoding: %v", err))
	}
	return c
}
