package verifsim

import (
	"fmt"
	"github.com/idena-network/idena-go/core/state"
	"strings"
	"testing"
	"time"

	"github.com/idena-network/idena-go/blockchain/fee"
	"github.com/idena-network/idena-go/blockchain/types"
	"github.com/idena-network/idena-go/blockchain/validation"
	"github.com/idena-network/idena-go/common"
	"github.com/idena-network/idena-go/verifutil"
)

// scenario seeds are a function of (VERIF_SEED, shard, scenario index)
func scenSeed(sc int) uint64 {
	return verifutil.Seed()*1000003 + uint64(verifutil.Shard())*1009 + uint64(sc)
}

func optsFor(sc int, seed uint64) Options {
	o := Options{Seed: seed, NNodes: 2 + sc%2, NIdent: 10 + (sc%5)*6, NAccounts: 3 + sc%3, GodIsIdentity: sc%2 == 1}
	if sc%3 == 2 {
		o.ValidationInterval = 50 * time.Minute // frequent epochs
	}
	if sc%4 == 3 {
		o.ZeroStakes = true
	}
	// vary the weekday/hour the chain starts at
	o.StartTime = time.Date(2023, 8, 7+sc%7, 6+sc%13, 0, 0, 0, time.UTC)
	return o
}

// startScenario runs the prologue. A block refused during the prologue is a disagreement
// between replicas: a violation for the properties that decide that (C01, C02), otherwise the
// scenario is skipped and the run is inconclusive.
func startScenario(w *World, rep *verifutil.Report, decides bool) bool {
	if err := w.Prologue(); err != nil {
		if decides {
			rep.Violation("rejected:"+ErrClass(err)+":prologue", fmt.Sprintf("world seed %d: %v", w.Opt.Seed, err), nil)
		} else {
			rep.Inconcl("scenario (world seed %d) could not start: %v", w.Opt.Seed, err)
		}
		return false
	}
	return true
}

func reportReject(rep *verifutil.Report, sc, i int, res *BlockResult) {
	for n, e := range res.Errs {
		who := "-"
		if res.Proposer != nil {
			who = res.Proposer.Name
		}
		rep.Violation("rejected:"+ErrClass(e)+":"+TxTypesOf(res.Block), fmt.Sprintf("scenario %d step %d: block %d (%s) built by %s refused by %s: %v", sc, i, res.Block.Height(), BlockKind(res.Block), who, n, e),
			map[string]interface{}{"scenario_seed": scenSeed(sc), "step": i, "block": DescribeBlock(res.Block)})
	}
}

func flushCounters(rep *verifutil.Report, w *World, s *Scenario) {
	for k, v := range s.Included {
		rep.Count("included:"+k, v)
	}
	for k, v := range w.Stats {
		rep.Count(k, v)
	}
}

// ---------------------------------------------------------------------------------- C02

func TestVerifC02(t *testing.T) {
	if !verifutil.Enabled() {
		t.Skip("verif harness")
	}
	rep := verifutil.NewReport()
	defer rep.Write()
	nScen := verifutil.Scale(2, 14)
	steps := verifutil.Scale(260, 420)
	for sc := 0; sc < nScen; sc++ {
		seed := scenSeed(sc)
		w := NewWorld(optsFor(sc, seed))
		twin := w.AddTwin()
		if !startScenario(w, rep, true) {
			w.Cleanup()
			continue
		}
		s := NewScenario(w, verifutil.NewRng(seed, 2))
		s.Hostile, s.MaxTxs, s.PartialPct = 35, 7, 20
		ceremonyPairsDone := map[uint16]int{}
		for i := 0; i < steps; i++ {
			rep.Progress("C02 scenario %d seed %d step %d", sc, seed, i)
			// ceremony transactions reaching the nodes in different orders: a candidate signs two
			// transactions of one ceremony type with consecutive nonces; the later one reaches node A
			// first (it waits in A's queue), the earlier one is mined by node B; then A proposes
			if st := w.View().AppState.State; st.ValidationPeriod() >= state.ShortSessionPeriod && st.ValidationPeriod() <= state.LongSessionPeriod && ceremonyPairsDone[st.Epoch()] < 3 {
				var A, B *Replica
				for _, r := range w.Replicas {
					if r.Alive && !r.Observer && r.CanPropose() {
						if A == nil {
							A = r
						} else if B == nil {
							B = r
						}
					}
				}
				var cand *Actor
				for _, a := range w.SortedActors() {
					if id := st.GetIdentity(a.Addr); state.IsCeremonyCandidate(id) && !isNode(w, a) && a != w.God && !st.HasValidationTx(a.Addr, types.SubmitLongAnswersTx) && !st.HasValidationTx(a.Addr, types.SubmitShortAnswersTx) && !st.HasValidationTx(a.Addr, types.SubmitAnswersHashTx) {
						if n := w.NextNonce(a); n == w.StateNonce(a) {
							cand = a
							break
						}
					}
				}
				if A != nil && B != nil && cand != nil {
					ceremonyPairsDone[st.Epoch()]++
					typ := types.SubmitLongAnswersTx
					if st.ValidationPeriod() == state.ShortSessionPeriod {
						typ = types.SubmitAnswersHashTx
					}
					ns := w.View().AppState.ValidatorsCache.NetworkSize()
					n := w.StateNonce(cand)
					t1 := c14CeremonyTxAt(st, ns, s.R, cand, typ, n, st.Epoch())
					t2 := c14CeremonyTxAt(st, ns, s.R, cand, typ, n+1, st.Epoch())
					e2 := A.TxPool.AddExternalTxs(validation.InboundTx, t2)
					e1 := B.TxPool.AddExternalTxs(validation.InboundTx, t1)
					rep.Count("ceremony_pairs:"+TxName(typ)+":later-first="+ErrClass(e2)+":earlier="+ErrClass(e1), 1)
					if e1 == nil && e2 == nil {
						for _, p := range []*Replica{B, A} {
							s.MoveClock()
							if !p.CanPropose() {
								break
							}
							res := w.NextBlockBy(p)
							rep.Eval(1)
							rep.Count("ceremony_pair_blocks", 1)
							for _, tx := range res.Block.Body.Transactions {
								if tx.Hash() == t1.Hash() {
									rep.Count("ceremony_pair_earlier_tx_mined", 1)
								}
								if tx.Hash() == t2.Hash() {
									rep.Count("ceremony_pair_later_tx_mined", 1)
								}
							}
							if len(res.Errs) > 0 {
								reportReject(rep, sc, i, res)
								break
							}
							CheckAgreement(w, rep, "C02", res.Block)
						}
					}
				}
			}
			// hostile mempool: interacting bursts of one sender
			if s.R.Intn(3) == 0 {
				for _, g := range w.Burst(s.R) {
					if err := s.SubmitGen(g); err == nil {
						rep.Count("burst_txs_admitted", 1)
					}
				}
			}
			// gas cap boundary: cumulative gas exactly on the cap with one more tx following, built
			// by a proposer whose pool holds exactly these three txs
			if i%40 == 25 && twin.CanPropose() {
				if gens := w.ExactCapTxs(s.R, twin); gens != nil {
					ok := true
					for _, g := range gens {
						if err := twin.TxPool.AddExternalTxs(validation.InboundTx, g.Tx); err != nil {
							ok = false
						}
					}
					if ok {
						s.MoveClock()
						res := w.NextBlockBy(twin)
						rep.Eval(1)
						gas := 0
						for _, tx := range res.Block.Body.Transactions {
							gas += fee.CalculateGas(tx)
						}
						rep.Count("exact_cap_proposals", 1)
						vmg := 0
						rep.Count(fmt.Sprintf("exact_cap_ntx:%d:txgas:%d", len(res.Block.Body.Transactions), gas+vmg), 1)
						if len(res.Block.Body.Transactions) == 3 {
							rep.Count("exact_cap_proposals_with_tail_tx", 1)
						}
						if len(res.Errs) > 0 {
							reportReject(rep, sc, i, res)
							break
						}
						CheckAgreement(w, rep, "C02", res.Block)
					}
					for _, old := range twin.TxPool.VerifAll() {
						twin.TxPool.Remove(old)
					}
				}
			}
			// gas cap: several fat transactions at once
			if s.R.Intn(12) == 0 {
				for _, g := range w.FatTxs(s.R) {
					if err := s.SubmitGen(g); err == nil {
						rep.Count("fat_txs_admitted", 1)
					}
				}
			}
			var offered int
			res := stepObserved(s, &offered)
			if res.Proposer != nil {
				rep.Eval(1)
				nIn := len(res.Block.Body.Transactions)
				gas := 0
				for _, tx := range res.Block.Body.Transactions {
					gas += fee.CalculateGas(tx)
				}
				if uint64(gas) > types.MaxBlockSize(true)*8/10 {
					rep.Count("proposals_near_or_over_gas_cap", 1)
				}
				if uint64(gas) > types.MaxBlockSize(true) {
					rep.Count("proposals_over_gas_cap_by_one_tx", 1)
				}
				if offered > nIn {
					rep.Count("proposals_with_filtered_txs", 1)
					rep.Count("txs_filtered_while_building", offered-nIn)
				}
				if nIn > 0 && offered > nIn {
					rep.Distinct(res.Block.Hash().Hex())
				}
				if nIn > 0 && sc == 0 && i < 60 {
					rep.Sample(DescribeBlock(res.Block))
				}
			}
			if len(res.Errs) > 0 {
				reportReject(rep, sc, i, res)
				break
			}
			rep.Count("kind:"+BlockKind(res.Block), 1)
			if !CheckAgreement(w, rep, "C02", res.Block) {
				break
			}
		}
		flushCounters(rep, w, s)
		w.Cleanup()
	}
}

// stepObserved = Scenario.Step, additionally reporting how many txs the proposer's pool
// offered (BuildBlockTransactions is read-only).
func stepObserved(s *Scenario, offered *int) *BlockResult {
	w := s.W
	hook := func(p *Replica) { *offered = len(p.TxPool.BuildBlockTransactions()) }
	w.beforePropose = hook
	defer func() { w.beforePropose = nil }()
	return s.Step()
}

// ---------------------------------------------------------------------------------- C04

func TestVerifC04(t *testing.T) {
	if !verifutil.Enabled() {
		t.Skip("verif harness")
	}
	rep := verifutil.NewReport()
	defer rep.Write()
	nScen := verifutil.Scale(2, 14)
	steps := verifutil.Scale(260, 420)
	for sc := 0; sc < nScen; sc++ {
		seed := scenSeed(sc)
		o := optsFor(sc, seed)
		o.EpochNoKills = sc%2 == 0
		if o.EpochNoKills {
			o.ZeroStakes = false
		}
		godOnly := (sc+verifutil.Shard())%8 == 5
		if godOnly {
			// a network without any validated identity: the god node produces every block and the
			// fee rules of an empty network apply (no base fee)
			o.NNodes, o.NIdent, o.GodIsIdentity = 0, 0, false
		}
		w := NewWorld(o)
		twin := w.AddTwin()
		if !startScenario(w, rep, false) {
			w.Cleanup()
			continue
		}
		s := NewScenario(w, verifutil.NewRng(seed, 4))
		s.Hostile, s.MaxTxs = 40, 6
		lm := &LedgerMonitor{}
		for i := 0; i < steps; i++ {
			rep.Progress("C04 scenario %d seed %d step %d", sc, seed, i)
			// twin block for one generated tx (hostile amounts incl.), force-put past the pool
			if g := w.RandomTx(s.R, 50); g != nil && g.Tx != nil {
				twinConservation(w, twin, rep, g)
				s.SubmitGen(g)
			}
			// a contract call failing in the middle of its execution, followed by a successful
			// contract tx in the same block: nothing may leak from the failed one
			if i%15 == 7 {
				for _, seq := range w.GasSweepSeqs(s.R, twin, 6) {
					tr, err := w.TwinSeq(twin, seq)
					if err != nil || tr == nil || !tr.Included || tr.B0.Header.Flags().HasFlag(types.ValidationFinished) {
						continue
					}
					rep.Eval(1)
					rep.Count("twin_sequences(fail-then-success)", 1)
					if len(tr.Receipts) == 2 && !tr.Receipts[0].Success && tr.Receipts[1].Success {
						rep.Count("twin_sequences_failed_midway_then_succeeded", 1)
					}
					l0, l1 := LedgerOf(tr.Post0), LedgerOf(tr.Post1)
					if l1.Total.Cmp(l0.Total) > 0 {
						rep.Violation("tx-sequence-mints:contract-failure-then-success", fmt.Sprintf("a block with a contract call that fails mid-execution followed by a successful contract tx ends with a larger total than the same block without them: %v > %v", l1.Total, l0.Total),
							map[string]interface{}{"block": DescribeBlock(tr.B1), "diff": LedgerDiff(l0, l1)})
					}
				}
			}
			// a sender drains its account and, in the same block, follows with a contract tx whose max
			// fee it cannot cover any more (both admitted by the pool on their own)
			if i%6 == 2 {
				for _, seq := range w.DrainThenContractSeqs(s.R, 3) {
					tr, err := w.TwinSeq(twin, seq)
					rep.Count("drain_then_contract_sequences", 1)
					if tr != nil && tr.B1 != nil {
						rep.Count(fmt.Sprintf("drain_then_contract_txs_in_block:%d", len(tr.B1.Body.Transactions)), 1)
					}
					if err != nil || tr == nil || !tr.Included || tr.B0.Header.Flags().HasFlag(types.ValidationFinished) {
						continue
					}
					rep.Eval(1)
					l0, l1 := LedgerOf(tr.Post0), LedgerOf(tr.Post1)
					if l1.Total.Cmp(l0.Total) > 0 {
						rep.Violation("tx-sequence-mints:drain-then-contract", fmt.Sprintf("a block in which a sender first sends away (almost) all it has and then runs a contract tx ends with a larger total than the same block without the two: %v > %v", l1.Total, l0.Total),
							map[string]interface{}{"block": DescribeBlock(tr.B1), "diff": LedgerDiff(l0, l1)})
					}
					for a, e := range l1.ByAddr {
						if e.Balance.Sign() < 0 {
							rep.Violation("negative-balance:drain-then-contract", fmt.Sprintf("%x ends with balance %v", a[:4], e.Balance), map[string]interface{}{"block": DescribeBlock(tr.B1)})
						}
					}
				}
			}
			st := w.View().AppState.State
			epochBlockBefore := st.EpochBlock()
			res := s.Step()
			if len(res.Errs) > 0 {
				// not this property's verdict (C02 decides it); stop the scenario
				rep.Note("scenario %d stopped at step %d: block refused (%v)", sc, i, res.Errs)
				break
			}
			rep.Eval(1)
			b := res.Block
			rep.Count("kind:"+BlockKind(b), 1)
			if b.Header.Flags().HasFlag(types.ValidationFinished) {
				rep.Count("epochs_finished", 1)
			}
			lm.Check(w, rep, b, epochBlockBefore)
			if godOnly {
				rep.Count("blocks_in_network_without_validated_identities", 1)
				for _, tx := range b.Body.Transactions {
					if tx.Type == types.DeployContractTx || tx.Type == types.CallContractTx || tx.Type == types.TerminateContractTx {
						rep.Count("contract_txs_in_network_without_validated_identities", 1)
					}
				}
			}
			// the shared zero constant of the code base (read wherever a balance or stake is missing)
			if common.Big0.Sign() != 0 {
				rep.Violation("shared-zero-constant-modified", fmt.Sprintf("after block %d common.Big0 holds %v: every missing balance / stake / fee now reads as that amount in this process", b.Height(), common.Big0), DescribeBlock(b))
				common.Big0.SetInt64(0)
			}
			if len(b.Body.Transactions) > 0 || lm.Prev != nil {
				rep.Distinct(b.Hash().Hex())
			}
			if sc == 0 && i < 3 {
				rep.Sample(map[string]interface{}{"block": DescribeBlock(b), "ledger_total_after": lm.Prev.Total.String()})
			}
		}
		flushCounters(rep, w, s)
		w.Cleanup()
	}
}

func twinConservation(w *World, twin *Replica, rep *verifutil.Report, g *Gen) {
	tr, err := w.Twin(twin, g.Tx, true)
	if err != nil {
		if tr != nil && strings.Contains(err.Error(), "does not validate") {
			rep.Note("twin B1 refused by validator (C02 matter): %v", err)
		}
		return
	}
	rep.Count("twins_attempted", 1)
	if !tr.Included {
		return
	}
	rep.Eval(1)
	rep.Count("twins", 1)
	rep.Count("twin_type:"+TxName(g.Tx.Type), 1)
	if tr.Forced {
		rep.Count("twins_forced_past_pool", 1)
	}
	l0, l1 := LedgerOf(tr.Post0), LedgerOf(tr.Post1)
	// the end of a validation destroys dust accounts and burns stakes as a function of the balances
	// the block's transactions leave behind: a transfer out of an account that is cleared without
	// it legitimately ends with a larger total (the ledger monitor bounds such blocks instead)
	if tr.B0.Header.Flags().HasFlag(types.ValidationFinished) {
		rep.Count("twins_on_validation_finishing_blocks(total not compared)", 1)
	} else if l1.Total.Cmp(l0.Total) > 0 {
		rep.Violation("tx-mints:"+TxName(g.Tx.Type), fmt.Sprintf("block with one %s tx (%s) ends with a larger total than the same block without it: %v > %v", TxName(g.Tx.Type), g.Kind, l1.Total, l0.Total),
			map[string]interface{}{"tx": DescribeBlock(tr.B1), "diff": LedgerDiff(l0, l1)})
	}
	// pre-encoding view: negative big.Ints are still negative here
	for _, tx := range tr.B1.Body.Transactions {
		for _, a := range touched(tx) {
			if tr.Post1.State.GetBalance(a).Sign() < 0 || tr.Post1.State.GetStakeBalance(a).Sign() < 0 {
				rep.Violation("negative-after-tx:"+TxName(tx.Type), fmt.Sprintf("%s tx (%s) leaves %x with balance %v stake %v", TxName(tx.Type), g.Kind, a[:4], tr.Post1.State.GetBalance(a), tr.Post1.State.GetStakeBalance(a)), DescribeBlock(tr.B1))
			}
		}
	}
}
