package verifsim

import (
	"bytes"
	"fmt"
	"math/big"
	"testing"

	"github.com/idena-network/idena-go/blockchain/types"
	"github.com/idena-network/idena-go/common"
	"github.com/idena-network/idena-go/core/appstate"
	"github.com/idena-network/idena-go/core/state"
	"github.com/idena-network/idena-go/verifutil"
)

// C13 (b) speculative work never changes the canonical state, (c) a read-only view of a
// retained height returns exactly what was committed there (also after reorganisations).

func isStateKey(k []byte) bool { return len(k) > 0 && k[0] <= 3 }

type canonSnap struct {
	head, root, idRoot common.Hash
	version            int64
	versions           string
	dbAll, dbState     string
}

func snapCanon(r *Replica) canonSnap {
	all, _ := DigestDB(r.DB, nil)
	st, _ := DigestDB(r.DB, func(k []byte) bool { return !isStateKey(k) })
	return canonSnap{head: r.Head().Hash(), root: r.AppState.State.Root(), idRoot: r.AppState.IdentityState.Root(), version: r.AppState.State.Version(),
		versions: fmt.Sprint(r.AppState.State.VerifAvailableVersions(), r.AppState.IdentityState.VerifAvailableVersions()), dbAll: all, dbState: st}
}

func guard(rep *verifutil.Report, r *Replica, activity string, stateOnly bool, f func()) {
	before := snapCanon(r)
	f()
	after := snapCanon(r)
	rep.Eval(1)
	rep.Count("activity:"+activity, 1)
	if stateOnly {
		before.dbAll, after.dbAll = "", ""
	}
	// a NEW private view of the canonical head, committed without any write, must reproduce the
	// canonical roots: whatever the activity left in the node's memory must not reach it
	if cs, err := r.AppState.ForCheck(r.Head().Height()); err == nil {
		cs.Precommit()
		rep.Count("fresh_view_root_checks", 1)
		if cs.State.Root() != before.root || cs.IdentityState.Root() != before.idRoot {
			rep.Violation("speculative-work-changed:root of the next private view:"+activity, fmt.Sprintf("after %s on replica %s at height %d a fresh check view of the head, precommitted without writes, has roots %x / %x, the canonical state %x / %x",
				activity, r.Name, r.Head().Height(), cs.State.Root(), cs.IdentityState.Root(), before.root, before.idRoot), nil)
		}
	}
	if before != after {
		what := "stored state (db keys of the state trees)"
		switch {
		case before.head != after.head:
			what = "head"
		case before.root != after.root || before.idRoot != after.idRoot:
			what = "canonical root"
		case before.version != after.version || before.versions != after.versions:
			what = "stored versions"
		case before.dbState == after.dbState:
			what = "node database (non-state keys)"
		}
		rep.Violation("speculative-work-changed:"+what+":"+activity, fmt.Sprintf("%s on replica %s at height %d changed the %s: before %+v after %+v", activity, r.Name, r.Head().Height(), what, before, after), nil)
	}
}

// sampleView reads the sampled getters from a state view.
func sampleView(w *World, as *appstate.AppState) map[string]string {
	m := map[string]string{}
	st := as.State
	for _, a := range w.SortedActors() {
		id := st.GetIdentity(a.Addr)
		ib, _ := id.ToBytes()
		ih := hash32(ib)
		vc := as.ValidatorsCache
		m[a.Name] = fmt.Sprintf("bal=%v nonce=%d epoch=%d stake=%v id=%x validated=%v online=%v | validators view: validated=%v online=%v pool=%v(%d) discriminated=%v", st.GetBalance(a.Addr), st.GetNonce(a.Addr), st.GetEpoch(a.Addr), st.GetStakeBalance(a.Addr),
			ih[:6], as.IdentityState.IsValidated(a.Addr), as.IdentityState.IsOnline(a.Addr), vc.IsValidated(a.Addr), vc.IsOnlineIdentity(a.Addr), vc.IsPool(a.Addr), vc.PoolSize(a.Addr), vc.IsDiscriminated(a.Addr))
	}
	m["validators"] = fmt.Sprintf("network=%d online=%d validators-size=%d", as.ValidatorsCache.NetworkSize(), as.ValidatorsCache.OnlineSize(), as.ValidatorsCache.ValidatorsSize())
	m["global"] = fmt.Sprintf("epoch=%d nvt=%d period=%d fee=%v god=%x lastSnapshot=%d", st.Epoch(), st.NextValidationTime().Unix(), st.ValidationPeriod(), st.FeePerGas(), st.GodAddress().Bytes()[:4], st.LastSnapshot())
	m["zero"] = fmt.Sprint(st.GetBalance(common.Address{}))
	for _, c := range contractsByWorld[w] {
		m["contract:"+c.Addr.Hex()[:10]] = fmt.Sprintf("bal=%v code=%v owner=%x", st.GetBalance(c.Addr), st.GetCodeHash(c.Addr) != nil, st.GetContractValue(c.Addr, []byte("owner")))
	}
	return m
}

type heldView struct {
	as   *appstate.AppState
	ver  int64
	root common.Hash
	keep int
}

func diffSample(a, b map[string]string) string {
	for k, v := range a {
		if b[k] != v {
			return fmt.Sprintf("%s: recorded %q, view returns %q", k, v, b[k])
		}
	}
	// (keys that were not recorded - actors created later - are not compared)
	return ""
}

func TestVerifC13Chain(t *testing.T) {
	if !verifutil.Enabled() {
		t.Skip("verif harness")
	}
	rep := verifutil.NewReport()
	defer rep.Write()
	nScen := verifutil.Scale(1, 6)
	steps := verifutil.Scale(190, 380)
	for sc := 0; sc < nScen; sc++ {
		seed := scenSeed(sc)
		o := optsFor(sc, seed)
		o.NIdent = 8 + sc%3*4
		w := NewWorld(o)
		if !startScenario(w, rep, false) {
			w.Cleanup()
			continue
		}
		R := w.Replicas[1]
		s := NewScenario(w, verifutil.NewRng(seed, 13))
		s.Hostile, s.MaxTxs = 10, 5
		rec := map[uint64]map[string]string{} // height -> values recorded at commit time
		held := map[uint64]*heldView{}
		for _, b := range w.Blocks {
			_ = b
		}
		rec[R.Head().Height()] = sampleView(w, R.AppState)
		for i := 0; i < steps; i++ {
			rep.Progress("C13 scenario %d seed %d step %d", sc, seed, i)
			w.beforeDistribute = func(b *types.Block, p *Replica) {
				if p == R {
					return
				}
				guard(rep, R, "ValidateBlock", false, func() { R.enter(); R.Chain.ValidateBlock(b, nil, R.Stats) })
			}
			res := s.Step()
			w.beforeDistribute = nil
			if len(res.Errs) > 0 {
				if e, ok := res.Errs[R.Name]; ok && len(res.Errs) == 1 {
					// only the replica that did the speculative work disagrees with the block
					rep.Violation("speculative-work-changed:later-block-refused:"+ErrClass(e), fmt.Sprintf("block %d built by %s is accepted by every replica except %s, the one the speculative activities ran on: %v",
						res.Block.Height(), res.Proposer.Name, R.Name, e), DescribeBlock(res.Block))
				}
				rep.Note("scenario %d stopped at step %d: block refused (%v)", sc, i, res.Errs)
				break
			}
			b := res.Block
			h := b.Height()
			rec[h] = sampleView(w, R.AppState)
			// ---- views handed out BEFORE this block was applied are read only now (rpc / mempool /
			// ceremony readers keep the memoised head view while the next block is committed)
			for hh, v := range held {
				rep.Eval(1)
				rep.Count("held_view_reads", 1)
				var got map[string]string
				var ver int64
				var root common.Hash
				if p, _ := verifutil.Catch(func() { got, ver, root = sampleView(w, v.as), v.as.State.Version(), v.as.State.Root() }); p != nil {
					rep.Violation("held-view-differs:panic", fmt.Sprintf("a read-only view of height %d taken while it was the head panics when read after %d further block(s): %v", hh, h-hh, p), nil)
				} else if d := diffSample(rec[hh], got); d != "" {
					rep.Violation("held-view-differs:values", fmt.Sprintf("a read-only view of height %d taken while it was the head, first read after %d further block(s) were committed, differs from what was committed at %d: %s", hh, h-hh, hh, d), nil)
				} else if ver != v.ver || root != v.root {
					rep.Violation("held-view-differs:version-or-root", fmt.Sprintf("a read-only view of height %d reported version %d root %x when taken, version %d root %x after %d further block(s)", hh, v.ver, v.root, ver, root, h-hh), nil)
				}
				if h-hh >= uint64(v.keep) {
					delete(held, hh)
				}
			}
			if i%3 == 0 {
				if v, err := R.AppState.Readonly(h); err == nil {
					held[h] = &heldView{as: v, ver: v.State.Version(), root: v.State.Root(), keep: s.R.Range(1, 3)}
				}
			}
			// ---- (b) speculative activities around the canonical state
			switch i % 4 {
			case 0:
				if i%8 == 0 {
					// a proposal that deploys a never-seen WASM code and is then thrown away (the tx
					// is known to this node only and leaves its pool again)
					tx := w.WasmDeployTx(s.R, w.God)
					if err := R.TxPool.AddInternalTx(tx); err == nil {
						included := false
						guard(rep, R, "ProposeBlock(wasm deploy, discarded)", true, func() {
							if p := R.Chain.ProposeBlock(nil); p != nil && p.Block != nil && p.Block.Body != nil {
								for _, t := range p.Block.Body.Transactions {
									included = included || t.Hash() == tx.Hash()
								}
							}
						})
						if included {
							rep.Count("wasm_deploys_in_discarded_proposals", 1)
						}
						R.TxPool.Remove(tx)
					} else {
						rep.Count("wasm_deploy_not_accepted_by_pool", 1)
					}
					break
				}
				guard(rep, R, "ProposeBlock", true, func() { R.Chain.ProposeBlock(nil) })
			case 1:
				guard(rep, R, "ForCheck+writes+Precommit+Commit", false, func() {
					cs, err := R.AppState.ForCheck(h)
					if err != nil {
						return
					}
					for _, a := range w.SortedActors()[:4] {
						cs.State.SetBalance(a.Addr, big.NewInt(int64(s.R.Intn(1000))))
						cs.State.AddStake(a.Addr, big.NewInt(7))
						cs.State.SetState(a.Addr, state.Killed)
						cs.IdentityState.SetOnline(a.Addr, true)
						cs.IdentityState.Remove(a.Addr)
					}
					cs.State.SetGodAddress(common.Address{1})
					cs.State.IncEpoch()
					cs.Precommit()
					cs.Commit(nil)
				})
			case 2:
				if len(w.Blocks) > 6 {
					k := s.R.Range(1, 5)
					var bundles []types.BlockBundle
					for _, ob := range w.Blocks[len(w.Blocks)-k:] {
						bundles = append(bundles, types.BlockBundle{Block: ob, Cert: R.Chain.GetCertificate(ob.Hash())})
					}
					var err error
					guard(rep, R, "ValidateSubChain(ForCheckWithOverwrite)", false, func() { err = R.Chain.ValidateSubChain(h-uint64(k), bundles) })
					if err != nil {
						rep.Note("ValidateSubChain of the node's own last %d canonical blocks returned %v", k, err)
					}
					rep.Count("subchain_validations", 1)
				}
			case 3:
				if i%8 == 3 {
					// the snapshot manager's export of the head or of an older retained height
					k := uint64(s.R.Intn(4))
					if k >= h {
						k = 0
					}
					guard(rep, R, "WriteSnapshot2(export)", false, func() {
						var buf bytes.Buffer
						if _, err := R.AppState.State.WriteSnapshot2(h-k, &buf); err == nil {
							rep.Count("snapshot_exports", 1)
							if k > 0 {
								rep.Count("snapshot_exports_of_older_heights", 1)
							}
						}
					})
					break
				}
				guard(rep, R, "Readonly-queries", false, func() {
					if v, err := R.AppState.Readonly(h); err == nil {
						v.State.GetBalance(w.God.Addr)
						v.State.GetOrNewAccountObject(common.Address{9}) // a creating accessor on the view
						v.State.Delegatee(common.Address{8})
					}
				})
			}
			// ---- (c) historical exactness
			if i%6 == 5 {
				vers := R.AppState.State.VerifAvailableVersions()
				have := map[uint64]bool{}
				for _, v := range vers {
					have[uint64(v)] = true
				}
				for hh, want := range rec {
					if hh == h {
						continue
					}
					v, err := R.AppState.Readonly(hh)
					rep.Eval(1)
					if !have[hh] {
						rep.Count("pruned_height_reads", 1)
						if err == nil {
							got := sampleView(w, v)
							if d := diffSample(want, got); d != "" {
								rep.Violation("pruned-height-answered-wrongly", fmt.Sprintf("Readonly(%d) of a pruned height (retained: %d..%d) answered with values that were not committed there: %s", hh, vers[0], vers[len(vers)-1], d), nil)
							}
						}
						continue
					}
					rep.Count("historical_reads", 1)
					rep.Distinct("hist", hh, seed)
					if err != nil {
						rep.Violation("retained-height-unreadable", fmt.Sprintf("Readonly(%d) failed although the version is retained: %v", hh, err), nil)
						continue
					}
					if d := diffSample(want, sampleView(w, v)); d != "" {
						rep.Violation("historical-view-differs", fmt.Sprintf("Readonly(%d) at head %d differs from what was committed at %d: %s", hh, h, hh, d), nil)
					}
				}
				// the head itself, read last (this is the view the mempool validates against)
				if v, err := R.AppState.Readonly(h); err == nil {
					if d := diffSample(rec[h], sampleView(w, v)); d != "" {
						rep.Violation("historical-view-differs:head", fmt.Sprintf("Readonly(head=%d) differs from the canonical state: %s", h, d), nil)
					}
				}
				for hh := range rec {
					if hh+250 < h {
						delete(rec, hh)
					}
				}
			}
			// ---- a re-committed height must show the NEW branch
			if i%9 == 8 && !b.IsEmpty() && len(b.Body.Transactions) > 0 {
				R.enter()
				R.AppState.Readonly(h) // what a mempool validation does
				if _, err := R.Chain.ResetTo(h - 1); err != nil {
					rep.Note("ResetTo failed: %v", err)
					continue
				}
				alt := R.Chain.GenerateEmptyBlock() // a different block for the same height
				if err := R.Chain.AddBlock(alt, nil, R.Stats); err != nil {
					rep.Note("alternative block refused: %v", err)
				} else {
					want := sampleView(w, R.AppState)
					rep.Eval(1)
					rep.Count("reads_after_reorg", 1)
					if v, err := R.AppState.Readonly(h); err != nil {
						rep.Violation("retained-height-unreadable:after-reorg", fmt.Sprintf("Readonly(%d) failed after a reorganisation: %v", h, err), nil)
					} else {
						var got map[string]string
						if p, _ := verifutil.Catch(func() { got = sampleView(w, v) }); p != nil {
							rep.Violation("historical-view-differs:after-reorg", fmt.Sprintf("after switching height %d to another block, reading Readonly(%d) panics: %v", h, h, p), DescribeBlock(b))
						} else if d := diffSample(want, got); d != "" {
							rep.Violation("historical-view-differs:after-reorg", fmt.Sprintf("after switching height %d to another block, Readonly(%d) still shows the abandoned branch: %s", h, h, d), DescribeBlock(b))
						}
					}
				}
				// back to the canonical chain
				if _, err := R.Chain.ResetTo(h - 1); err == nil {
					if err := R.AddBlock(b); err != nil {
						rep.Violation("canonical-block-refused-after-reorg:"+ErrClass(err), fmt.Sprintf("canonical block %d refused after switching back: %v", h, err), DescribeBlock(b))
						break
					}
					if v, err := R.AppState.Readonly(h); err == nil {
						if d := diffSample(rec[h], sampleView(w, v)); d != "" {
							rep.Violation("historical-view-differs:after-reorg", fmt.Sprintf("after switching height %d back to the canonical block, Readonly(%d) shows the other branch: %s", h, h, d), DescribeBlock(b))
						}
					}
				}
			}
			if sc == 0 && i == 5 {
				rep.Sample(map[string]interface{}{"height": h, "recorded_getters": rec[h]})
			}
		}
		flushCounters(rep, w, s)
		w.Cleanup()
	}
}
