package verifsim

import (
	"bytes"
	"fmt"

	"github.com/idena-network/idena-go/blockchain/types"
	"github.com/idena-network/idena-go/common"
	"github.com/idena-network/idena-go/core/state"
	"github.com/idena-network/idena-go/core/state/snapshot"
	"github.com/idena-network/idena-go/core/validators"
	dbm "github.com/tendermint/tm-db"
)

// FastSync brings a fresh node to snapHeight the way protocol/fast.go does, calling the same
// functions in the same order: preliminary identity copy -> per block: ValidateHeader,
// certificate rule, identity diff replay + root check (+CommitTree), AddHeaderUnsafe,
// validator view update, WriteIdentityStateDiff/WriteCertificate -> snapshot import
// (RecoverSnapshot2 against the preliminary head's root) -> SaveForcedVersion ->
// AtomicSwitchToPreliminary. Headers, certificates, diffs and the snapshot are what `server`
// stores and serves. `db` is the syncing node's database (may be a CrashDB).
type FastSyncRun struct {
	S        *Replica
	Idb      *state.IdentityStateDB
	Vals     *validators.ValidatorsCache
	Archive  []byte
	Manifest *snapshot.Manifest
}

// FastSyncHeaders runs the header phase (everything before the snapshot import).
func FastSyncHeaders(w *World, server *Replica, db dbm.DB, snapHeight uint64) (*FastSyncRun, error) {
	S, err := tmpReplica(w, w.God, db, "fastSynced")
	if err != nil {
		return nil, err
	}
	head := S.Head()
	S.Chain.PreliminaryHead = head
	idb, err := S.AppState.IdentityState.CreatePreliminaryCopy(head.Height())
	if err != nil {
		return nil, fmt.Errorf("CreatePreliminaryCopy: %w", err)
	}
	vals := validators.NewValidatorsCache(idb, S.AppState.State.GodAddress())
	vals.Load()
	cache := map[string]common.Address{}
	prev := head
	for h := head.Height() + 1; h <= snapHeight; h++ {
		hd := server.Chain.GetBlockHeaderByHeight(h)
		if hd == nil {
			return nil, fmt.Errorf("server has no header %d", h)
		}
		cert := server.Chain.GetCertificate(hd.Hash())
		diff := server.Chain.GetIdentityDiff(h)
		if err := S.Chain.ValidateHeader(hd, prev); err != nil {
			return nil, fmt.Errorf("ValidateHeader(%d): %w", h, err)
		}
		if hd.Flags().HasFlag(types.IdentityUpdate|types.Snapshot|types.NewGenesis) && cert.Empty() {
			return nil, fmt.Errorf("block cert is missing at %d", h)
		}
		if !cert.Empty() {
			if err := S.Chain.ValidateBlockCert(prev, hd, cert, vals, cache); err != nil {
				return nil, fmt.Errorf("ValidateBlockCert(%d): %w", h, err)
			}
		}
		idb.AddDiff(h, diff)
		if idb.Root() != hd.IdentityRoot() {
			idb.Reset()
			return nil, fmt.Errorf("identity root is invalid at %d", h)
		}
		if !diff.Empty() {
			idb.CommitTree(int64(h))
		}
		if err := S.Chain.AddHeaderUnsafe(hd); err != nil {
			return nil, err
		}
		if !diff.Empty() {
			vals.UpdateFromIdentityStateDiff(diff)
		}
		S.Chain.WriteIdentityStateDiff(h, diff)
		if !cert.Empty() {
			S.Chain.WriteCertificate(hd.Hash(), cert, true)
		}
		prev = hd
	}
	var buf bytes.Buffer
	root, err := server.AppState.State.WriteSnapshot2(snapHeight, &buf)
	if err != nil {
		return nil, fmt.Errorf("server cannot export snapshot at %d: %w", snapHeight, err)
	}
	return &FastSyncRun{S: S, Idb: idb, Vals: vals, Archive: buf.Bytes(), Manifest: &snapshot.Manifest{Height: snapHeight, Root: root}}, nil
}

// Finish = postConsuming: snapshot import + forced identity version + atomic switch.
func (f *FastSyncRun) Finish() error {
	S := f.S
	if S.Chain.PreliminaryHead.Height() != f.Manifest.Height {
		return fmt.Errorf("preliminary head is lower than manifest's head")
	}
	if err := S.AppState.State.RecoverSnapshot2(f.Manifest.Height, S.Chain.PreliminaryHead.Root(), bytes.NewReader(f.Archive)); err != nil {
		return fmt.Errorf("RecoverSnapshot2: %w", err)
	}
	if err := f.Idb.SaveForcedVersion(S.Chain.PreliminaryHead.Height()); err != nil {
		return fmt.Errorf("SaveForcedVersion: %w", err)
	}
	if err := S.Chain.AtomicSwitchToPreliminary(f.Manifest); err != nil {
		return fmt.Errorf("AtomicSwitchToPreliminary: %w", err)
	}
	return nil
}
