package ipfs

// Build-time replacement of ipfs/ipfs.go used by /verif (Go -overlay). It keeps the
// constants, the Proxy interface and the in-memory proxy of the original file verbatim
// and drops the kubo-backed implementation, whose dependency quic-go v0.28.0 refuses
// to compile with the installed toolchain. The only addition is a mutex in memoryIpfs
// so that concurrent harnesses do not make the *stub* the data race.

import (
	"context"
	"io"
	"os"
	"sync"
	"time"

	"github.com/idena-network/idena-go/common/eventbus"
	"github.com/idena-network/idena-go/config"
	"github.com/ipfs/go-cid"
	core2 "github.com/libp2p/go-libp2p-core"
	pubsub "github.com/libp2p/go-libp2p-pubsub"
	"github.com/multiformats/go-multihash"
	"github.com/pkg/errors"
)

const (
	CidLength        = 36
	ZeroPeersTimeout = 2 * time.Minute
)

type DataType = uint32

const (
	Block      DataType = 1
	Flip       DataType = 2
	Profile    DataType = 3
	TxReceipt  DataType = 4
	CustomData DataType = 5
)

var (
	EmptyCid  cid.Cid
	MinCid    [CidLength]byte
	MaxCid    [CidLength]byte
	TooBigErr = errors.New("ipfs data is too big")
)

func init() {
	e, _ := cid.Decode("bafkreihdwdcefgh4dqkjv67uzcmw7ojee6xedzdetojuzjevtenxquvyku")
	EmptyCid = e

	for i := range MaxCid {
		MaxCid[i] = 0xFF
	}
}

type Proxy interface {
	Add(data []byte, pin bool) (cid.Cid, error)
	Get(key []byte, dataType DataType) ([]byte, error)
	LoadTo(key []byte, to io.Writer, ctx context.Context, onLoading func(size, loaded int64)) error
	Pin(key []byte) error
	Unpin(key []byte) error
	Cid(data []byte) (cid.Cid, error)
	Port() int
	PeerId() string
	AddFile(absPath string, data io.ReadCloser, fi os.FileInfo) (cid.Cid, error)
	Host() core2.Host
	ShouldPin(dataType DataType) bool
	GetWithSizeLimit(key []byte, dataType DataType, size int64) ([]byte, error)
	PubSub() *pubsub.PubSub
	GC() (ctx context.Context, cancel context.CancelFunc)
}

func NewIpfsProxy(cfg *config.IpfsConfig, bus eventbus.Bus) (Proxy, error) {
	return nil, errors.New("verif stub: kubo-backed ipfs proxy is not built")
}

func NewMemoryIpfsProxy() Proxy {
	return &memoryIpfs{
		values: make(map[cid.Cid][]byte),
	}
}

type memoryIpfs struct {
	mu     sync.Mutex
	values map[cid.Cid][]byte
}

func (i *memoryIpfs) PubSub() *pubsub.PubSub {
	panic("implement me")
}

func (i *memoryIpfs) ShouldPin(dataType DataType) bool {
	return true
}

func (i *memoryIpfs) Host() core2.Host {
	panic("implement me")
}

func (i *memoryIpfs) LoadTo(key []byte, to io.Writer, ctx context.Context, onLoading func(size, loaded int64)) error {
	data, err := i.Get(key, Block)
	if err != nil {
		return err
	}
	_, err = to.Write(data)
	return err
}

func (i *memoryIpfs) AddFile(absPath string, data io.ReadCloser, fi os.FileInfo) (cid.Cid, error) {
	b, err := io.ReadAll(data)
	if err != nil {
		return EmptyCid, err
	}
	return i.Add(b, true)
}

func (i *memoryIpfs) Unpin(key []byte) error {
	return nil
}

func (i *memoryIpfs) Add(data []byte, pin bool) (cid.Cid, error) {
	cid, _ := i.Cid(data)
	i.mu.Lock()
	i.values[cid] = data
	i.mu.Unlock()
	return cid, nil
}

func (i *memoryIpfs) Get(key []byte, dataType DataType) ([]byte, error) {
	if len(key) == 0 {
		return []byte{}, nil
	}
	c, err := cid.Parse(key)
	if err != nil {
		return nil, err
	}
	i.mu.Lock()
	v, ok := i.values[c]
	i.mu.Unlock()
	if ok {
		return v, nil
	}
	return nil, errors.New("not found")
}

func (i *memoryIpfs) GetWithSizeLimit(key []byte, dataType DataType, size int64) ([]byte, error) {
	return i.Get(key, dataType)
}

func (*memoryIpfs) Pin(key []byte) error {
	return nil
}

func (*memoryIpfs) PeerId() string {
	return ""
}

func (*memoryIpfs) Port() int {
	return 0
}

func (*memoryIpfs) Cid(data []byte) (cid.Cid, error) {
	var v1CidPrefix = cid.Prefix{
		Codec:    cid.Raw,
		MhLength: -1,
		MhType:   multihash.SHA2_256,
		Version:  1,
	}
	return v1CidPrefix.Sum(data)
}

func (i *memoryIpfs) GC() (ctx context.Context, cancel context.CancelFunc) {
	return context.WithCancel(context.Background())
}
